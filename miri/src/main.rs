//! Scaled-down workloads for Miri (undefined behaviour, data races, leaks of the borrow model) over
//! the crates with unsafe code: skipfree, listfree, sync42 (LRU, wait list, coalescing queue) and
//! scrunch (suffix sorting, wavelet tree).  Every workload also checks a functional oracle, so a
//! schedule Miri picks that exposes a logic error fails the run as well.
//! usage: vmiri <workload> <seed>

use std::collections::{BTreeMap, BTreeSet, HashMap, VecDeque};
use std::sync::atomic::{AtomicBool, Ordering};
use std::sync::Arc;

fn rng(seed: &mut u64) -> u64 {
    *seed ^= *seed << 13;
    *seed ^= *seed >> 7;
    *seed ^= *seed << 17;
    *seed
}

fn skiplist(seed: u64) {
    use skipfree::SkipList;
    let list: Arc<SkipList<u64, u64>> = Arc::new(SkipList::default());
    let done = Arc::new(AtomicBool::new(false));
    let style = seed % 3;
    let keys = |t: u64| -> Vec<u64> {
        match style {
            0 => (0..6).map(|i| i * 2 + t).collect(),      // interleaved: shared predecessors
            1 => (0..6).map(|i| 100 * t + i).collect(),    // disjoint ranges
            _ => (0..6).rev().map(|i| i * 2 + t).collect(), // descending
        }
    };
    let mut ws = Vec::new();
    for t in 0..2u64 {
        let l = Arc::clone(&list);
        let ks = keys(t);
        ws.push(std::thread::spawn(move || {
            for k in ks {
                l.insert(k, k * 10 + 1);
            }
        }));
    }
    let r = {
        let l = Arc::clone(&list);
        let d = Arc::clone(&done);
        std::thread::spawn(move || {
            let mut rounds = 0;
            while rounds < 40 && !(d.load(Ordering::Acquire) && rounds > 2) {
                rounds += 1;
                let mut it = l.iter();
                it.seek_to_first();
                let mut last: Option<u64> = None;
                while it.is_valid() {
                    let k = *it.key();
                    assert_eq!(*it.value(), k * 10 + 1, "value of another key");
                    if let Some(p) = last {
                        assert!(p < k, "iteration not strictly increasing");
                    }
                    last = Some(k);
                    it.next();
                }
                let _ = l.contains(&3);
                let mut it = l.iter();
                it.seek(&5);
                if it.is_valid() {
                    assert!(*it.key() >= 5);
                    it.prev();
                }
                std::thread::yield_now();
            }
        })
    };
    for w in ws {
        w.join().unwrap();
    }
    done.store(true, Ordering::Release);
    r.join().unwrap();
    let want: BTreeSet<u64> = keys(0).into_iter().chain(keys(1)).collect();
    let mut it = list.iter();
    it.seek_to_first();
    let mut got = BTreeSet::new();
    while it.is_valid() {
        got.insert(*it.key());
        it.next();
    }
    assert_eq!(got, want, "quiescent contents");
    // an iterator outlives its list
    let mut it = list.iter();
    it.seek_to_first();
    drop(list);
    let mut n = 0;
    while it.is_valid() {
        n += 1;
        it.next();
    }
    assert_eq!(n, want.len());
}

fn list(seed: u64) {
    use listfree::List;
    let l: Arc<List<u64>> = Arc::new(List::default());
    let mut ws = Vec::new();
    for t in 0..2u64 {
        let l2 = Arc::clone(&l);
        ws.push(std::thread::spawn(move || {
            for i in 0..5u64 {
                l2.prepend(t * 100 + i);
            }
        }));
    }
    let r = {
        let l2 = Arc::clone(&l);
        std::thread::spawn(move || {
            for _ in 0..(4 + seed % 4) {
                let seen: Vec<u64> = l2.iter().copied().collect();
                let set: BTreeSet<u64> = seen.iter().copied().collect();
                assert_eq!(set.len(), seen.len(), "an element twice");
                std::thread::yield_now();
            }
        })
    };
    for w in ws {
        w.join().unwrap();
    }
    r.join().unwrap();
    assert_eq!(l.iter().count(), 10);
}

fn lru(mut seed: u64) {
    use sync42::lru::LeastRecentlyUsedCache;
    seed |= 1;
    let cap = [0usize, 1, 20, 64][(seed % 4) as usize];
    let c: LeastRecentlyUsedCache<u64, Vec<u8>> = LeastRecentlyUsedCache::new(cap);
    let mut present: HashMap<u64, Vec<u8>> = HashMap::new();
    for step in 0..80u64 {
        let k = rng(&mut seed) % 6;
        match rng(&mut seed) % 6 {
            0..=2 => {
                let v = vec![step as u8; (rng(&mut seed) % 12) as usize];
                c.insert(k, v.clone());
                present.insert(k, v);
            }
            3 => {
                if let Some(v) = c.lookup(&k) {
                    assert_eq!(Some(&v), present.get(&k), "lookup returns a value that was not the last inserted");
                }
            }
            4 => {
                c.remove(&k);
                present.remove(&k);
                assert!(c.lookup(&k).is_none());
            }
            _ => {
                if let Some((pk, pv)) = c.pop() {
                    assert_eq!(Some(&pv), present.get(&pk));
                    present.remove(&pk);
                }
            }
        }
    }
    // two threads (on an empty cache: the values below are told apart by their length)
    while c.pop().is_some() {}
    for k in 0..6u64 {
        c.remove(&k);
    }
    let c = Arc::new(c);
    let mut ts = Vec::new();
    for t in 0..2u64 {
        let c2 = Arc::clone(&c);
        ts.push(std::thread::spawn(move || {
            for i in 0..12u64 {
                c2.insert(t * 10 + i % 3, vec![t as u8; 4]);
                if let Some(v) = c2.lookup(&(i % 3)) {
                    assert_eq!(v.len(), 4);
                }
                if i % 5 == 0 {
                    let _ = c2.pop();
                }
            }
        }));
    }
    for t in ts {
        t.join().unwrap();
    }
    while c.pop().is_some() {}
}

fn waitlist(seed: u64) {
    use sync42::wait_list::WaitList;
    let wl: WaitList<u64> = WaitList::new();
    let mut guards = VecDeque::new();
    for i in 0..5u64 {
        guards.push_back(wl.link(i));
    }
    // unlink in an order chosen by the seed; the head is always the lowest linked index
    let mut s = seed | 1;
    let mut model: BTreeMap<u64, u64> = BTreeMap::new();
    for g in guards.iter_mut() {
        let idx = g.index();
        let v = g.load();
        model.insert(idx, v);
    }
    while !guards.is_empty() {
        let pick = (rng(&mut s) as usize) % guards.len();
        for g in guards.iter_mut() {
            let head = *model.keys().next().unwrap();
            assert_eq!(g.is_head(), g.index() == head);
        }
        let mut g = guards.remove(pick).unwrap();
        model.remove(&g.index());
        wl.unlink(g);
        wl.notify_head();
    }
    // threads take turns through the list
    let wl = Arc::new(WaitList::<u64>::new());
    let mu = Arc::new(std::sync::Mutex::new(0u64));
    let mut ts = Vec::new();
    for t in 0..3u64 {
        let (wl2, mu2) = (Arc::clone(&wl), Arc::clone(&mu));
        ts.push(std::thread::spawn(move || {
            for _ in 0..3 {
                let mut st = mu2.lock().unwrap();
                let mut g = wl2.link(t);
                while !g.is_head() {
                    st = g.naked_wait(st);
                }
                *st += 1;
                drop(st);
                wl2.unlink(g);
                wl2.notify_head();
            }
        }));
    }
    for t in ts {
        t.join().unwrap();
    }
    assert_eq!(*mu.lock().unwrap(), 9);
}

struct SumCore {
    batches: Vec<Vec<u64>>,
}

impl sync42::work_coalescing_queue::WorkCoalescingCore<u64, u64> for SumCore {
    type InputAccumulator = Vec<u64>;
    type OutputIterator<'a> = std::vec::IntoIter<u64>;
    fn can_batch(&self, acc: &Vec<u64>, _: &u64) -> bool {
        acc.len() < 3
    }
    fn batch(&mut self, mut acc: Vec<u64>, other: u64) -> Vec<u64> {
        acc.push(other);
        acc
    }
    fn work(&mut self, taken: usize, acc: Vec<u64>) -> Self::OutputIterator<'_> {
        assert_eq!(taken, acc.len());
        let out: Vec<u64> = acc.iter().map(|x| x + 1000).collect();
        self.batches.push(acc);
        out.into_iter()
    }
}

fn queue(_seed: u64) {
    use sync42::work_coalescing_queue::WorkCoalescingQueue;
    let q = Arc::new(WorkCoalescingQueue::new(SumCore { batches: Vec::new() }));
    let mut ts = Vec::new();
    for t in 0..3u64 {
        let q2 = Arc::clone(&q);
        ts.push(std::thread::spawn(move || {
            for i in 0..3u64 {
                let id = t * 10 + i;
                assert_eq!(q2.do_work(id), id + 1000, "a caller got another caller's output");
            }
        }));
    }
    for t in ts {
        t.join().unwrap();
    }
    let core = Arc::try_unwrap(q).ok().unwrap().into_inner();
    let all: Vec<u64> = core.batches.iter().flatten().copied().collect();
    let set: BTreeSet<u64> = all.iter().copied().collect();
    assert_eq!(all.len(), 9);
    assert_eq!(set.len(), 9, "an input worked twice");
}

fn text_index(mut seed: u64) {
    use buffertk::Unpackable;
    use scrunch::builder::Builder;
    use scrunch::{CompressedDocument, Document};
    seed |= 1;
    let n = 12 + (rng(&mut seed) % 30) as usize;
    let sigma = 2 + (rng(&mut seed) % 4) as u32;
    let text: Vec<u32> = (0..n).map(|_| 1 + (rng(&mut seed) % sigma as u64) as u32).collect();
    let cut = 1 + (rng(&mut seed) as usize) % (n - 1);
    let bounds: Vec<usize> = vec![0, cut];
    let mut buf = Vec::new();
    {
        let mut b = Builder::new(&mut buf);
        CompressedDocument::construct(text.clone(), bounds.clone(), &mut b).expect("construct");
    }
    let (doc, rest) = CompressedDocument::unpack(&buf).expect("unpack");
    assert!(rest.is_empty());
    assert_eq!(doc.len(), text.len());
    // every substring up to length 3, plus an absent one
    let mut needles: BTreeSet<Vec<u32>> = BTreeSet::new();
    for i in 0..n {
        for l in 1..=3 {
            if i + l <= n {
                needles.insert(text[i..i + l].to_vec());
            }
        }
    }
    needles.insert(vec![sigma + 5]);
    for needle in needles {
        // occurrences that do not straddle the record boundary are what the naive count agrees on
        let naive = (0..n).filter(|i| i + needle.len() <= n && text[*i..*i + needle.len()] == needle[..]).count();
        let got = doc.search(&needle).map(|s| s.count()).unwrap_or(0);
        assert!(got <= naive, "more hits than occurrences for {needle:?}: {got} > {naive}");
        if needle.len() == 1 {
            assert_eq!(got, naive, "single-symbol count for {needle:?}");
        }
    }
}

/// The store's real memtable (hook H7): two writers, a reader doing point loads and scans, and a
/// cursor that outlives the table.
#[cfg(rescrv_blue_verif)]
fn memtable(seed: u64) {
    use lsmtk::{VerifMemTable, WriteBatch};
    use sst::Cursor;
    use std::ops::Bound;
    let mt: Arc<VerifMemTable> = Arc::new(VerifMemTable::default());
    let done = Arc::new(AtomicBool::new(false));
    let mut ws = Vec::new();
    for t in 0..2u64 {
        let m = Arc::clone(&mt);
        ws.push(std::thread::spawn(move || {
            for i in 0..4u64 {
                let mut wb = WriteBatch::with_capacity(2);
                // neighbouring keys of the two writers interleave
                wb.put(format!("k{:02}", i * 4 + t * 2).as_bytes(), format!("v{t}{i}").as_bytes());
                if (i + seed) % 2 == 0 {
                    wb.put(format!("k{:02}", i * 4 + t * 2 + 1).as_bytes(), b"second");
                }
                m.write(&mut wb).expect("memtable write");
            }
        }));
    }
    let r = {
        let m = Arc::clone(&mt);
        let d = Arc::clone(&done);
        std::thread::spawn(move || {
            let mut rounds = 0;
            while rounds < 25 && !(d.load(Ordering::Acquire) && rounds > 2) {
                rounds += 1;
                let mut tomb = false;
                if let Some(v) = m.load(b"k04", u64::MAX, &mut tomb).expect("load") {
                    assert!(v.starts_with(b"v"), "value of another key");
                }
                let (sb, eb): (Bound<Vec<u8>>, Bound<Vec<u8>>) = (Bound::Unbounded, Bound::Unbounded);
                let mut c = m.range_scan(&sb, &eb, u64::MAX).expect("scan");
                c.seek_to_first().unwrap();
                let mut last: Option<Vec<u8>> = None;
                loop {
                    c.next().unwrap();
                    let Some(k) = c.key() else { break };
                    if let Some(p) = &last {
                        assert!(p.as_slice() < k.key, "scan not increasing");
                    }
                    last = Some(k.key.to_vec());
                }
                std::thread::yield_now();
            }
        })
    };
    for w in ws {
        w.join().unwrap();
    }
    done.store(true, Ordering::Release);
    r.join().unwrap();
    let (sb, eb): (Bound<Vec<u8>>, Bound<Vec<u8>>) = (Bound::Unbounded, Bound::Unbounded);
    let mut c = mt.range_scan(&sb, &eb, u64::MAX).expect("scan");
    drop(mt);
    c.seek_to_first().unwrap();
    let mut n = 0;
    loop {
        c.next().unwrap();
        if c.key().is_none() {
            break;
        }
        n += 1;
    }
    assert!(n >= 8, "the cursor that outlives the memtable lost entries: {n}");
}

#[cfg(not(rescrv_blue_verif))]
fn memtable(_seed: u64) {
    panic!("built without --cfg rescrv_blue_verif");
}

fn main() {
    let args: Vec<String> = std::env::args().collect();
    let w = args.get(1).map(|s| s.as_str()).unwrap_or("skiplist");
    let seed: u64 = args.get(2).and_then(|s| s.parse().ok()).unwrap_or(1);
    match w {
        "skiplist" => skiplist(seed),
        "list" => list(seed),
        "lru" => lru(seed),
        "waitlist" => waitlist(seed),
        "queue" => queue(seed),
        "text" => text_index(seed),
        "memtable" => memtable(seed),
        other => panic!("unknown workload {other}"),
    }
    println!("ok {w} {seed}");
}
