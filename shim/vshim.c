/*
 * vshim — LD_PRELOAD system-call shim for the crash / fault / durability checks (DESIGN.md §2.2).
 *
 * Interposes the libc entry points through which rescrv/blue mutates the file system, restricted
 * to paths under VSHIM_ROOT (descriptors are tracked from their open).
 *
 *   VSHIM_ROOT=<abs dir>      only this subtree is watched (required; nothing happens without it)
 *   VSHIM_TRACE=<file>        append "B <ev> <seq> <tid> <call> <ino> <size_before> <len> <path> <path2>"
 *                             before and "E <ev> <seq> <ret> <errno> <size_after>" after every watched
 *                             call; <ev> is a global logical clock ticking at every begin and end
 *   VSHIM_CRASH_AT=<n>        _exit(77) immediately BEFORE performing the n-th watched call (1-based)
 *   VSHIM_SYNCED=<file>       at the crash, dump "<ino> <synced_len> <size>" for every file written
 *                             by this process (persistence model b: bytes after the last successful
 *                             fsync/fdatasync of that file are lost)
 *   VSHIM_FAIL_AT=<n>,<errno> the n-th watched call returns -1 with that errno, once, without being
 *                             performed
 *   VSHIM_COUNT=<file>        at normal exit, write the number of watched calls
 *
 * Exported for the harness: unsigned long vshim_seq(void) — current value of the <ev> clock;
 * unsigned long vshim_calls(void) — number of watched calls begun so far.
 */
#define _GNU_SOURCE
#include <dlfcn.h>
#include <errno.h>
#include <fcntl.h>
#include <limits.h>
#include <pthread.h>
#include <stdarg.h>
#include <stdio.h>
#include <stdlib.h>
#include <string.h>
#include <sys/stat.h>
#include <sys/syscall.h>
#include <sys/types.h>
#include <sys/uio.h>
#include <unistd.h>

#define MAXFD 65536
#define MAXINO 65536

static int initialised;
static char root[PATH_MAX];
static size_t root_len;
static int trace_fd = -1;
static long crash_at = -1;
static long fail_at = -1;
static int fail_errno = EIO;
static char synced_path[PATH_MAX];
static char count_path[PATH_MAX];
static unsigned long seq; /* watched calls begun */
static unsigned long ev;  /* begin and end events: a global logical clock */
static pthread_mutex_t mu = PTHREAD_MUTEX_INITIALIZER;

static unsigned char fd_watched[MAXFD];
static ino_t fd_ino[MAXFD];

struct inode_rec {
    ino_t ino;
    off_t synced;
    int used;
};
static struct inode_rec inodes[MAXINO];

static ssize_t (*real_write)(int, const void *, size_t);
static ssize_t (*real_pwrite64)(int, const void *, size_t, off_t);
static ssize_t (*real_writev)(int, const struct iovec *, int);
static int (*real_fsync)(int);
static int (*real_fdatasync)(int);
static int (*real_open)(const char *, int, ...);
static int (*real_open64)(const char *, int, ...);
static int (*real_openat)(int, const char *, int, ...);
static int (*real_openat64)(int, const char *, int, ...);
static int (*real_creat)(const char *, mode_t);
static int (*real_close)(int);
static int (*real_link)(const char *, const char *);
static int (*real_linkat)(int, const char *, int, const char *, int);
static int (*real_rename)(const char *, const char *);
static int (*real_renameat)(int, const char *, int, const char *);
static int (*real_renameat2)(int, const char *, int, const char *, unsigned int);
static int (*real_unlink)(const char *);
static int (*real_unlinkat)(int, const char *, int);
static int (*real_mkdir)(const char *, mode_t);
static int (*real_mkdirat)(int, const char *, mode_t);
static int (*real_rmdir)(const char *);
static int (*real_ftruncate)(int, off_t);
static int (*real_ftruncate64)(int, off_t);

static void init(void) {
    if (initialised) return;
    pthread_mutex_lock(&mu);
    if (initialised) {
        pthread_mutex_unlock(&mu);
        return;
    }
    real_write = dlsym(RTLD_NEXT, "write");
    real_pwrite64 = dlsym(RTLD_NEXT, "pwrite64");
    real_writev = dlsym(RTLD_NEXT, "writev");
    real_fsync = dlsym(RTLD_NEXT, "fsync");
    real_fdatasync = dlsym(RTLD_NEXT, "fdatasync");
    real_open = dlsym(RTLD_NEXT, "open");
    real_open64 = dlsym(RTLD_NEXT, "open64");
    real_openat = dlsym(RTLD_NEXT, "openat");
    real_openat64 = dlsym(RTLD_NEXT, "openat64");
    real_creat = dlsym(RTLD_NEXT, "creat");
    real_close = dlsym(RTLD_NEXT, "close");
    real_link = dlsym(RTLD_NEXT, "link");
    real_linkat = dlsym(RTLD_NEXT, "linkat");
    real_rename = dlsym(RTLD_NEXT, "rename");
    real_renameat = dlsym(RTLD_NEXT, "renameat");
    real_renameat2 = dlsym(RTLD_NEXT, "renameat2");
    real_unlink = dlsym(RTLD_NEXT, "unlink");
    real_unlinkat = dlsym(RTLD_NEXT, "unlinkat");
    real_mkdir = dlsym(RTLD_NEXT, "mkdir");
    real_mkdirat = dlsym(RTLD_NEXT, "mkdirat");
    real_rmdir = dlsym(RTLD_NEXT, "rmdir");
    real_ftruncate = dlsym(RTLD_NEXT, "ftruncate");
    real_ftruncate64 = dlsym(RTLD_NEXT, "ftruncate64");
    const char *r = getenv("VSHIM_ROOT");
    if (r && r[0] == '/') {
        strncpy(root, r, sizeof(root) - 1);
        root_len = strlen(root);
        while (root_len > 1 && root[root_len - 1] == '/') root[--root_len] = 0;
    }
    const char *t = getenv("VSHIM_TRACE");
    if (t && root_len) trace_fd = real_open(t, O_WRONLY | O_CREAT | O_APPEND | O_CLOEXEC, 0644);
    const char *c = getenv("VSHIM_CRASH_AT");
    if (c) crash_at = atol(c);
    const char *f = getenv("VSHIM_FAIL_AT");
    if (f) {
        fail_at = atol(f);
        const char *comma = strchr(f, ',');
        if (comma) fail_errno = atoi(comma + 1);
    }
    const char *s = getenv("VSHIM_SYNCED");
    if (s) strncpy(synced_path, s, sizeof(synced_path) - 1);
    const char *n = getenv("VSHIM_COUNT");
    if (n) strncpy(count_path, n, sizeof(count_path) - 1);
    initialised = 1;
    pthread_mutex_unlock(&mu);
}

unsigned long vshim_seq(void) { return __atomic_load_n(&ev, __ATOMIC_SEQ_CST); }
unsigned long vshim_calls(void) { return __atomic_load_n(&seq, __ATOMIC_SEQ_CST); }

static int under_root(const char *path) {
    if (!root_len || !path) return 0;
    if (strncmp(path, root, root_len) != 0) return 0;
    return path[root_len] == '/' || path[root_len] == 0;
}

/* resolve (dirfd, path) to an absolute path when possible */
static const char *resolve(int dirfd, const char *path, char *buf, size_t n) {
    if (!path) return NULL;
    if (path[0] == '/') return path;
    char dir[PATH_MAX];
    if (dirfd == AT_FDCWD) {
        if (!getcwd(dir, sizeof(dir))) return path;
    } else {
        char link[64];
        snprintf(link, sizeof(link), "/proc/self/fd/%d", dirfd);
        ssize_t l = readlink(link, dir, sizeof(dir) - 1);
        if (l <= 0) return path;
        dir[l] = 0;
    }
    snprintf(buf, n, "%s/%s", dir, path);
    return buf;
}

static struct inode_rec *inode_get(ino_t ino, int create, off_t initial) {
    unsigned long h = (unsigned long)ino * 2654435761UL % MAXINO;
    for (int i = 0; i < MAXINO; i++) {
        struct inode_rec *r = &inodes[(h + i) % MAXINO];
        if (r->used && r->ino == ino) return r;
        if (!r->used) {
            if (!create) return NULL;
            r->used = 1;
            r->ino = ino;
            r->synced = initial;
            return r;
        }
    }
    return NULL;
}

static off_t fd_size(int fd) {
    struct stat st;
    if (fstat(fd, &st) != 0) return -1;
    return st.st_size;
}

static void dump_synced(void) {
    if (!synced_path[0]) return;
    int fd = real_open(synced_path, O_WRONLY | O_CREAT | O_TRUNC, 0644);
    if (fd < 0) return;
    char line[128];
    for (int i = 0; i < MAXINO; i++) {
        if (inodes[i].used) {
            int n = snprintf(line, sizeof(line), "%lu %ld\n", (unsigned long)inodes[i].ino, (long)inodes[i].synced);
            real_write(fd, line, n);
        }
    }
    real_close(fd);
}

static void trace(const char *buf, int n) {
    if (trace_fd >= 0) real_write(trace_fd, buf, n);
}

/* begin a watched call; returns the sequence number, or 0 if the call must fail (errno set) */
static unsigned long begin(const char *call, ino_t ino, off_t size_before, long len, const char *p1, const char *p2,
                           int *inject) {
    unsigned long s = __atomic_add_fetch(&seq, 1, __ATOMIC_SEQ_CST);
    unsigned long t = __atomic_add_fetch(&ev, 1, __ATOMIC_SEQ_CST);
    *inject = 0;
    if (trace_fd >= 0) {
        char line[2 * PATH_MAX + 160];
        int n = snprintf(line, sizeof(line), "B %lu %lu %ld %s %lu %ld %ld %s %s\n", t, s, (long)syscall(SYS_gettid), call,
                         (unsigned long)ino, (long)size_before, len, p1 ? p1 : "-", p2 ? p2 : "-");
        trace(line, n);
    }
    if (crash_at > 0 && (long)s == crash_at) {
        pthread_mutex_lock(&mu);
        dump_synced();
        _exit(77);
    }
    if (fail_at > 0 && (long)s == fail_at) {
        *inject = 1;
        if (trace_fd >= 0) {
            char line[96];
            int n = snprintf(line, sizeof(line), "F %lu %d\n", s, fail_errno);
            trace(line, n);
        }
    }
    return s;
}

static void end(unsigned long s, long ret, int err, off_t size_after) {
    unsigned long t = __atomic_add_fetch(&ev, 1, __ATOMIC_SEQ_CST);
    if (trace_fd >= 0) {
        char line[128];
        int n = snprintf(line, sizeof(line), "E %lu %lu %ld %d %ld\n", t, s, ret, err, (long)size_after);
        trace(line, n);
    }
}

static void watch_fd(int fd, int created_or_truncated) {
    if (fd < 0 || fd >= MAXFD) return;
    struct stat st;
    if (fstat(fd, &st) != 0) return;
    fd_watched[fd] = S_ISREG(st.st_mode) ? 1 : 2;
    fd_ino[fd] = st.st_ino;
    if (S_ISREG(st.st_mode)) {
        pthread_mutex_lock(&mu);
        /* a file that existed before this process is assumed durable up to its current size */
        inode_get(st.st_ino, 1, created_or_truncated ? 0 : st.st_size);
        pthread_mutex_unlock(&mu);
    }
}

/* ------------------------------------------------------------------------------------------ */

static int do_open(int which, int dirfd, const char *path, int flags, mode_t mode) {
    init();
    char buf[PATH_MAX * 2];
    const char *abs = resolve(dirfd, path, buf, sizeof(buf));
    int watched = under_root(abs);
    int mutating = watched && (flags & (O_CREAT | O_TRUNC));
    unsigned long s = 0;
    int inject = 0;
    int existed = 0;
    if (mutating) {
        struct stat st;
        existed = stat(abs, &st) == 0;
        s = begin(flags & O_CREAT ? "create" : "trunc", 0, 0, 0, abs, NULL, &inject);
        if (inject) {
            errno = fail_errno;
            end(s, -1, fail_errno, -1);
            return -1;
        }
    }
    int fd;
    switch (which) {
        case 0: fd = real_open(path, flags, mode); break;
        case 1: fd = real_open64(path, flags, mode); break;
        case 2: fd = real_openat(dirfd, path, flags, mode); break;
        default: fd = real_openat64(dirfd, path, flags, mode); break;
    }
    int e = errno;
    if (watched && fd >= 0) watch_fd(fd, (flags & O_TRUNC) || !existed);
    if (mutating) end(s, fd, fd < 0 ? e : 0, fd >= 0 ? fd_size(fd) : -1);
    errno = e;
    return fd;
}

int open(const char *path, int flags, ...) {
    mode_t mode = 0;
    if (flags & (O_CREAT | O_TMPFILE)) {
        va_list ap;
        va_start(ap, flags);
        mode = va_arg(ap, mode_t);
        va_end(ap);
    }
    return do_open(0, AT_FDCWD, path, flags, mode);
}

int open64(const char *path, int flags, ...) {
    mode_t mode = 0;
    if (flags & (O_CREAT | O_TMPFILE)) {
        va_list ap;
        va_start(ap, flags);
        mode = va_arg(ap, mode_t);
        va_end(ap);
    }
    return do_open(1, AT_FDCWD, path, flags, mode);
}

int openat(int dirfd, const char *path, int flags, ...) {
    mode_t mode = 0;
    if (flags & (O_CREAT | O_TMPFILE)) {
        va_list ap;
        va_start(ap, flags);
        mode = va_arg(ap, mode_t);
        va_end(ap);
    }
    return do_open(2, dirfd, path, flags, mode);
}

int openat64(int dirfd, const char *path, int flags, ...) {
    mode_t mode = 0;
    if (flags & (O_CREAT | O_TMPFILE)) {
        va_list ap;
        va_start(ap, flags);
        mode = va_arg(ap, mode_t);
        va_end(ap);
    }
    return do_open(3, dirfd, path, flags, mode);
}

int creat(const char *path, mode_t mode) { return do_open(0, AT_FDCWD, path, O_CREAT | O_WRONLY | O_TRUNC, mode); }

int close(int fd) {
    init();
    if (fd >= 0 && fd < MAXFD) fd_watched[fd] = 0;
    return real_close(fd);
}

#define WATCHED_REG(fd) ((fd) >= 0 && (fd) < MAXFD && fd_watched[fd] == 1)

ssize_t write(int fd, const void *buf, size_t n) {
    init();
    if (!WATCHED_REG(fd)) return real_write(fd, buf, n);
    int inject;
    unsigned long s = begin("write", fd_ino[fd], fd_size(fd), (long)n, NULL, NULL, &inject);
    if (inject) {
        errno = fail_errno;
        end(s, -1, fail_errno, fd_size(fd));
        return -1;
    }
    ssize_t r = real_write(fd, buf, n);
    int e = errno;
    end(s, r, r < 0 ? e : 0, fd_size(fd));
    errno = e;
    return r;
}

ssize_t pwrite64(int fd, const void *buf, size_t n, off_t off) {
    init();
    if (!WATCHED_REG(fd)) return real_pwrite64(fd, buf, n, off);
    int inject;
    unsigned long s = begin("pwrite", fd_ino[fd], fd_size(fd), (long)n, NULL, NULL, &inject);
    if (inject) {
        errno = fail_errno;
        end(s, -1, fail_errno, fd_size(fd));
        return -1;
    }
    ssize_t r = real_pwrite64(fd, buf, n, off);
    int e = errno;
    end(s, r, r < 0 ? e : 0, fd_size(fd));
    errno = e;
    return r;
}

ssize_t pwrite(int fd, const void *buf, size_t n, off_t off) { return pwrite64(fd, buf, n, off); }

ssize_t writev(int fd, const struct iovec *iov, int cnt) {
    init();
    if (!WATCHED_REG(fd)) return real_writev(fd, iov, cnt);
    long total = 0;
    for (int i = 0; i < cnt; i++) total += iov[i].iov_len;
    int inject;
    unsigned long s = begin("writev", fd_ino[fd], fd_size(fd), total, NULL, NULL, &inject);
    if (inject) {
        errno = fail_errno;
        end(s, -1, fail_errno, fd_size(fd));
        return -1;
    }
    ssize_t r = real_writev(fd, iov, cnt);
    int e = errno;
    end(s, r, r < 0 ? e : 0, fd_size(fd));
    errno = e;
    return r;
}

static int do_sync(int which, int fd) {
    init();
    if (!(fd >= 0 && fd < MAXFD && fd_watched[fd])) return which ? real_fdatasync(fd) : real_fsync(fd);
    int inject;
    off_t before = fd_size(fd);
    unsigned long s = begin(which ? "fdatasync" : "fsync", fd_ino[fd], before, 0, NULL, NULL, &inject);
    if (inject) {
        errno = fail_errno;
        end(s, -1, fail_errno, before);
        return -1;
    }
    int r = which ? real_fdatasync(fd) : real_fsync(fd);
    int e = errno;
    if (r == 0 && fd_watched[fd] == 1) {
        pthread_mutex_lock(&mu);
        struct inode_rec *rec = inode_get(fd_ino[fd], 1, 0);
        /* everything written before the sync began is durable */
        if (rec && before > rec->synced) rec->synced = before;
        pthread_mutex_unlock(&mu);
    }
    end(s, r, r < 0 ? e : 0, fd_size(fd));
    errno = e;
    return r;
}

int fsync(int fd) { return do_sync(0, fd); }
int fdatasync(int fd) { return do_sync(1, fd); }

static int do_trunc(int which, int fd, off_t len) {
    init();
    if (!WATCHED_REG(fd)) return which ? real_ftruncate64(fd, len) : real_ftruncate(fd, len);
    int inject;
    unsigned long s = begin("ftruncate", fd_ino[fd], fd_size(fd), (long)len, NULL, NULL, &inject);
    if (inject) {
        errno = fail_errno;
        end(s, -1, fail_errno, fd_size(fd));
        return -1;
    }
    int r = which ? real_ftruncate64(fd, len) : real_ftruncate(fd, len);
    int e = errno;
    end(s, r, r < 0 ? e : 0, fd_size(fd));
    errno = e;
    return r;
}

int ftruncate(int fd, off_t len) { return do_trunc(0, fd, len); }
int ftruncate64(int fd, off_t len) { return do_trunc(1, fd, len); }

/* two-path and one-path namespace operations */
#define NS2(NAME, CALLNAME, REALCALL, D1, P1, D2, P2)                                        \
    init();                                                                                  \
    char b1[PATH_MAX * 2], b2[PATH_MAX * 2];                                                 \
    const char *a1 = resolve(D1, P1, b1, sizeof(b1));                                        \
    const char *a2 = resolve(D2, P2, b2, sizeof(b2));                                        \
    if (!under_root(a1) && !under_root(a2)) return REALCALL;                                 \
    int inject;                                                                              \
    struct stat st;                                                                          \
    ino_t ino = stat(a1, &st) == 0 ? st.st_ino : 0;                                          \
    unsigned long s = begin(CALLNAME, ino, 0, 0, a1, a2, &inject);                           \
    if (inject) {                                                                            \
        errno = fail_errno;                                                                  \
        end(s, -1, fail_errno, -1);                                                          \
        return -1;                                                                           \
    }                                                                                        \
    int r = REALCALL;                                                                        \
    int e = errno;                                                                           \
    end(s, r, r < 0 ? e : 0, -1);                                                            \
    errno = e;                                                                               \
    return r;

#define NS1(CALLNAME, REALCALL, D1, P1)                                                      \
    init();                                                                                  \
    char b1[PATH_MAX * 2];                                                                   \
    const char *a1 = resolve(D1, P1, b1, sizeof(b1));                                        \
    if (!under_root(a1)) return REALCALL;                                                    \
    int inject;                                                                              \
    struct stat st;                                                                          \
    ino_t ino = lstat(a1, &st) == 0 ? st.st_ino : 0;                                         \
    unsigned long s = begin(CALLNAME, ino, 0, 0, a1, NULL, &inject);                         \
    if (inject) {                                                                            \
        errno = fail_errno;                                                                  \
        end(s, -1, fail_errno, -1);                                                          \
        return -1;                                                                           \
    }                                                                                        \
    int r = REALCALL;                                                                        \
    int e = errno;                                                                           \
    end(s, r, r < 0 ? e : 0, -1);                                                            \
    errno = e;                                                                               \
    return r;

int link(const char *o, const char *n) { NS2(link, "link", real_link(o, n), AT_FDCWD, o, AT_FDCWD, n) }
int linkat(int od, const char *o, int nd, const char *n, int fl) {
    NS2(linkat, "link", real_linkat(od, o, nd, n, fl), od, o, nd, n)
}
int rename(const char *o, const char *n) { NS2(rename, "rename", real_rename(o, n), AT_FDCWD, o, AT_FDCWD, n) }
int renameat(int od, const char *o, int nd, const char *n) {
    NS2(renameat, "rename", real_renameat(od, o, nd, n), od, o, nd, n)
}
int renameat2(int od, const char *o, int nd, const char *n, unsigned int fl) {
    NS2(renameat2, "rename", real_renameat2(od, o, nd, n, fl), od, o, nd, n)
}
int unlink(const char *p) { NS1("unlink", real_unlink(p), AT_FDCWD, p) }
int unlinkat(int d, const char *p, int fl) { NS1(fl & AT_REMOVEDIR ? "rmdir" : "unlink", real_unlinkat(d, p, fl), d, p) }
int mkdir(const char *p, mode_t m) { NS1("mkdir", real_mkdir(p, m), AT_FDCWD, p) }
int mkdirat(int d, const char *p, mode_t m) { NS1("mkdir", real_mkdirat(d, p, m), d, p) }
int rmdir(const char *p) { NS1("rmdir", real_rmdir(p), AT_FDCWD, p) }

__attribute__((destructor)) static void fini(void) {
    if (count_path[0] && real_open) {
        int fd = real_open(count_path, O_WRONLY | O_CREAT | O_TRUNC, 0644);
        if (fd >= 0) {
            char line[64];
            int n = snprintf(line, sizeof(line), "%lu\n", seq);
            real_write(fd, line, n);
            real_close(fd);
        }
    }
}
