//! C12 — the log returns each batch once, in order; a torn tail loses only the tail.
//!
//! `c12`     : size patterns around the 1 MiB block boundaries, read back; every truncation length
//!             in windows around frame headers / split points / padding / boundaries.
//! `c12conc` : N threads appending through ConcurrentLogBuilder<File>; the file must contain each
//!             batch exactly once and whole; with the system-call shim loaded (TRACE mode) every
//!             append's return is stamped with the shim's call sequence number and the offline
//!             checker (lib/c12_durability.py) verifies write -> fdatasync -> return ordering.

use std::io::Cursor;
use std::sync::Arc;
use std::sync::atomic::{AtomicU64, Ordering};

use serde_json::json;
use sst::log::{ConcurrentLogBuilder, LogBuilder, LogIterator, LogOptions, WriteBatch};
use sst::Builder;

use crate::r#gen::Entry;
use crate::util::*;

const BLOCK: u64 = 1 << 20;

fn varint_len(mut x: u64) -> u64 {
    let mut n = 1;
    x >>= 7;
    while x > 0 {
        n += 1;
        x >>= 7;
    }
    n
}

/// Length of a whole frame for a payload of `n` bytes (from the documented layout: one byte of
/// header length, header = size varint + discriminant + crc32c with one-byte tags).
fn frame_len(n: u64) -> u64 {
    1 + (1 + varint_len(n)) + 2 + 5 + n
}

fn entry_len(key: usize, ts: u64, value: Option<usize>) -> u64 {
    // KeyValueEntry::Put/Del as a length-delimited one-of: tag + len + body
    let body = 2 + (1 + varint_len(key as u64) + key as u64) + (1 + varint_len(ts))
        + match value {
            Some(v) => 1 + varint_len(v as u64) + v as u64,
            None => 0,
        };
    1 + varint_len(body) + body
}

fn mk_batch(rng: &mut Rng, id: u64, target_payload: Option<u64>) -> (WriteBatch, Vec<Entry>) {
    let mut wb = WriteBatch::default();
    let mut entries = Vec::new();
    let mut push = |wb: &mut WriteBatch, key: Vec<u8>, ts: u64, value: Option<Vec<u8>>| {
        match &value {
            Some(v) => wb.put(&key, ts, v).expect("batch put"),
            None => wb.del(&key, ts).expect("batch del"),
        }
        entries.push(Entry { key, ts, value });
    };
    let idkey = |n: u64| format!("b{id:08}-{n:04}").into_bytes();
    match target_payload {
        Some(target) => {
            // fill with 32 KiB values, then one entry sized to hit the target exactly
            let mut n = 0u64;
            let mut have = 0u64;
            loop {
                let key = idkey(n);
                let full = entry_len(key.len(), id, Some(sst::MAX_VALUE_LEN));
                if have + full + 40 > target {
                    break;
                }
                push(&mut wb, key, id, Some(vec![(id % 251) as u8; sst::MAX_VALUE_LEN]));
                have += full;
                n += 1;
            }
            let key = idkey(n);
            let mut rest = target - have;
            // solve entry_len(key, id, Some(v)) == rest for v (try a few candidates)
            let mut done = false;
            for guess in (0..=rest).rev().take(80) {
                if entry_len(key.len(), id, Some(guess as usize)) == rest {
                    push(&mut wb, key.clone(), id, Some(vec![0xabu8; guess as usize]));
                    done = true;
                    break;
                }
            }
            if !done {
                // fall back: tombstone + whatever fits
                push(&mut wb, key, id, None);
                rest = 0;
            }
            let _ = rest;
        }
        None => {
            let n = match rng.below(6) {
                0 => 1,
                1 => 2,
                _ => 1 + rng.usize(6),
            };
            for i in 0..n {
                let key = match rng.below(5) {
                    0 => vec![],
                    1 => vec![b'k'; sst::MAX_KEY_LEN],
                    _ => idkey(i as u64),
                };
                let ts = match rng.below(4) {
                    0 => 0,
                    1 => u64::MAX,
                    _ => id,
                };
                let value = match rng.below(8) {
                    0 => None,
                    1 => Some(vec![]),
                    2 => Some(vec![7u8; sst::MAX_VALUE_LEN]),
                    _ => {
                        let l = rng.usize(300);
                        Some(rng.bytes(l))
                    }
                };
                push(&mut wb, key, ts, value);
            }
        }
    }
    (wb, entries)
}

struct BuiltLog {
    bytes: Vec<u8>,
    batches: Vec<Vec<Entry>>,
    /// file offset at which each batch's last frame ends
    ends: Vec<u64>,
    /// offsets of interest (frame starts, split points, boundaries)
    marks: Vec<u64>,
    on_target: u64,
    splits: u64,
    pads: u64,
}

fn build_log(rng: &mut Rng, nbatches: usize) -> Result<BuiltLog, (String, String)> {
    let mut bytes: Vec<u8> = Vec::new();
    let mut batches = Vec::new();
    let mut ends = Vec::new();
    let mut marks = vec![0u64];
    let (mut on_target, mut splits, mut pads) = (0u64, 0u64, 0u64);
    {
        let mut log = LogBuilder::from_write(LogOptions::default(), &mut bytes)
            .map_err(|e| ("builder-error".to_string(), format!("{e}")))?;
        let mut id = 0u64;
        for _ in 0..nbatches {
            let off = log.approximate_size() as u64;
            let nb = (off / BLOCK + 1) * BLOCK;
            let room = nb - off;
            // aim at the boundary: leave d in 0..=20 bytes, or overshoot by a few bytes
            let aim = rng.below(4);
            let target = if aim <= 1 && room > 70_000 && room <= BLOCK {
                let d = rng.below(24);
                let want_frame = if aim == 0 { room.saturating_sub(d) } else { room + 1 + rng.below(40) };
                // payload such that frame_len(payload) == want_frame
                let mut p = want_frame.saturating_sub(12);
                while frame_len(p) > want_frame && p > 0 {
                    p -= 1;
                }
                while frame_len(p) < want_frame {
                    p += 1;
                }
                if frame_len(p) == want_frame && p <= BLOCK - 100 { Some(p) } else { None }
            } else {
                None
            };
            let (wb, entries) = mk_batch(rng, id, target);
            id += 1;
            let payload = wb.approximate_size() as u64;
            if let Err(e) = log.append(&wb) {
                return Err(("append-error".into(), format!("append of a {payload}-byte batch at offset {off} failed: {e}")));
            }
            let end = log.approximate_size() as u64;
            if let Some(t) = target {
                if payload == t {
                    on_target += 1;
                }
            }
            if end / BLOCK != off / BLOCK && end % BLOCK != 0 {
                if end - off > frame_len(payload) {
                    // split or padded
                    if end - off >= frame_len(payload) + 9 {
                        splits += 1;
                    } else {
                        pads += 1;
                    }
                }
                marks.push(nb);
            }
            marks.push(off);
            marks.push(end);
            ends.push(end);
            batches.push(entries);
        }
        log.flush().map_err(|e| ("flush-error".to_string(), format!("{e}")))?;
    }
    Ok(BuiltLog { bytes, batches, ends, marks, on_target, splits, pads })
}

/// Drain a reader: entries until None or Err.
fn drain(bytes: &[u8]) -> (Vec<Entry>, Option<String>) {
    let mut out = Vec::new();
    let mut it = match LogIterator::from_reader(LogOptions::default(), Cursor::new(bytes)) {
        Ok(it) => it,
        Err(e) => return (out, Some(format!("{e}"))),
    };
    loop {
        match it.next() {
            Ok(Some(kv)) => out.push(Entry {
                key: kv.key.to_vec(),
                ts: kv.timestamp,
                value: kv.value.map(|v| v.to_vec()),
            }),
            Ok(None) => return (out, None),
            Err(e) => return (out, Some(format!("{e}"))),
        }
    }
}

fn fail(sig: &str, msg: String) -> Result<(), (String, String)> {
    Err((sig.to_string(), msg))
}

fn format_case(rng: &mut Rng, rep: &mut Report, cuts_per_log: usize) -> (u64, bool, serde_json::Value, Result<(), (String, String)>) {
    let nbatches = match rng.below(5) {
        0 => 1 + rng.usize(4),
        1 => 40 + rng.usize(60),
        _ => 5 + rng.usize(14),
    };
    let mut h = SHash::default();
    let mut desc = json!({});
    let mut nontrivial = false;
    let r = guarded(|| -> Result<(), (String, String)> {
        let log = build_log(rng, nbatches)?;
        h.u64(log.bytes.len() as u64);
        for e in &log.ends {
            h.u64(*e);
        }
        desc = json!({"batches": log.batches.len(), "bytes": log.bytes.len(), "splits": log.splits,
            "padded": log.pads, "aimed_at_boundary": log.on_target,
            "batch_ends_mod_block": log.ends.iter().take(8).map(|e| e % BLOCK).collect::<Vec<_>>()});
        rep.count("logs", 1);
        rep.count("batches", log.batches.len() as u64);
        rep.count("batches.split_across_boundary", log.splits);
        rep.count("batches.padded_to_boundary", log.pads);
        rep.count("batches.sized_for_boundary", log.on_target);
        rep.count("log_bytes", log.bytes.len() as u64);
        nontrivial = log.splits + log.pads > 0;
        // (1) full read-back
        let all: Vec<Entry> = log.batches.iter().flatten().cloned().collect();
        let (got, err) = drain(&log.bytes);
        if let Some(e) = err {
            return fail("readback-error", format!("reading the intact log failed after {} entries: {e}", got.len()));
        }
        if got != all {
            let i = got.iter().zip(all.iter()).position(|(a, b)| a != b).unwrap_or(got.len().min(all.len()));
            return fail("readback-mismatch", format!("{} entries read, {} appended; first difference at entry {i}", got.len(), all.len()));
        }
        // (2) truncations: windows around every mark, plus sampled others
        let mut cuts: Vec<u64> = Vec::new();
        let mut marks = log.marks.clone();
        marks.sort();
        marks.dedup();
        let per_mark = (cuts_per_log / marks.len().max(1)).clamp(3, 48) as u64;
        for m in &marks {
            for d in 0..per_mark {
                cuts.push(m.saturating_sub(per_mark / 2) + d);
            }
        }
        for _ in 0..cuts_per_log / 4 {
            cuts.push(rng.below(log.bytes.len() as u64 + 1));
        }
        cuts.retain(|c| *c <= log.bytes.len() as u64);
        cuts.sort();
        cuts.dedup();
        // entries prefix counts
        let mut prefix_entries = vec![0usize];
        for b in &log.batches {
            prefix_entries.push(prefix_entries.last().unwrap() + b.len());
        }
        for cut in cuts {
            let whole = log.ends.partition_point(|e| *e <= cut);
            let (got, err) = drain(&log.bytes[..cut as usize]);
            rep.count("truncations", 1);
            if err.is_some() {
                rep.count("truncations.reported_error", 1);
            }
            // never a partial or invented batch: what was read must be a whole-batch prefix
            let j = match prefix_entries.iter().position(|n| *n == got.len()) {
                Some(j) => j,
                None => {
                    return fail("torn-partial-batch", format!("cut at {cut} (block offset {}): {} entries read, not a batch boundary (whole batches before the cut: {whole}); reader ended with {err:?}", cut % BLOCK, got.len()));
                }
            };
            if got[..] != all[..got.len()] {
                return fail("torn-invented-entry", format!("cut at {cut}: entries differ from the appended prefix"));
            }
            if j > whole {
                return fail("torn-invented-batch", format!("cut at {cut}: {j} batches read but only {whole} are complete"));
            }
            if j < whole {
                return fail("torn-lost-complete-batch", format!("cut at {cut} (block offset {}): only {j} of {whole} complete batches were read; reader ended with {err:?}", cut % BLOCK));
            }
            if whole < log.batches.len() && cut > if whole == 0 { 0 } else { log.ends[whole - 1] } {
                rep.count("truncations.inside_a_frame", 1);
            }
        }
        Ok(())
    });
    let r = match r {
        Ok(r) => r,
        Err(p) => Err((format!("panic:{}", panic_site(&p)), format!("panic: {p}"))),
    };
    (h.get(), nontrivial, desc, r)
}

pub fn run(args: &Args) {
    let mut rep = Report::new("c12", args);
    rep.max_samples = 4;
    let cases = args.u64("cases", 12);
    let cuts = args.u64("cuts", 400) as usize;
    let (seed, shard) = (rep.seed, rep.shard);
    let only = args.opt("case").map(|c| c.parse::<u64>().unwrap());
    for case_no in 0..cases {
        if let Some(o) = only {
            if o != case_no {
                continue;
            }
        }
        let mut rng = Rng::derive(seed, "c12", shard, case_no);
        let (h, nontrivial, desc, res) = format_case(&mut rng, &mut rep, cuts);
        rep.evaluations += 1;
        if nontrivial {
            rep.nontrivial.insert(h);
            rep.sample(desc.clone());
        }
        if let Err((sig, msg)) = res {
            rep.violation("c12", &sig, json!({"case": desc, "message": msg,
                "replay": format!("vh c12 seed={seed} shard={shard} cases={} cuts={cuts} case={case_no}", case_no + 1)}));
        }
    }
    rep.finish(args);
}

//////////////////////////////////////////// concurrency ///////////////////////////////////////////

fn shim_seq() -> Option<u64> {
    // The shim exports `vshim_seq`; look it up dynamically so the harness runs without the shim.
    static ADDR: AtomicU64 = AtomicU64::new(1);
    let mut a = ADDR.load(Ordering::Relaxed);
    if a == 1 {
        let sym = unsafe { libc::dlsym(libc::RTLD_DEFAULT, c"vshim_seq".as_ptr()) };
        a = sym as u64;
        ADDR.store(a, Ordering::Relaxed);
    }
    if a == 0 {
        None
    } else {
        let f: extern "C" fn() -> u64 = unsafe { std::mem::transmute(a as usize) };
        Some(f())
    }
}

pub fn run_conc(args: &Args) {
    let mut rep = Report::new("c12conc", args);
    rep.max_samples = 3;
    let runs = args.u64("runs", 5);
    let (seed, shard) = (rep.seed, rep.shard);
    let scratch = Scratch::new("c12conc");
    let events_path = args.opt("events");
    let mut events_out: Vec<String> = Vec::new();
    for run_no in 0..runs {
        let mut rng = Rng::derive(seed, "c12conc", shard, run_no);
        let threads = 2 + rng.usize(15);
        let per_thread = 20 + rng.usize(120);
        let big = rng.chance(1, 3);
        let path = scratch.path.join(format!("log-{shard}-{run_no}"));
        let _ = std::fs::remove_file(&path);
        let log = match ConcurrentLogBuilder::new(LogOptions::default(), &path) {
            Ok(l) => Arc::new(l),
            Err(e) => {
                rep.inconclusive.push(format!("cannot create log: {e}"));
                continue;
            }
        };
        let clock = Arc::new(AtomicU64::new(0));
        let mut handles = Vec::new();
        for t in 0..threads {
            let log = Arc::clone(&log);
            let clock = Arc::clone(&clock);
            let mut trng = Rng::derive(seed, "c12conc-thread", shard * 1000 + run_no, t as u64);
            handles.push(std::thread::spawn(move || {
                let mut mine: Vec<(u64, Vec<Entry>, u64, u64, Option<u64>, bool)> = Vec::new();
                for i in 0..per_thread {
                    let id = ((t as u64) << 32) | i as u64;
                    let mut wb = WriteBatch::default();
                    let n = 1 + trng.usize(3);
                    let mut entries = Vec::new();
                    for j in 0..n {
                        let key = format!("t{t:02}-{i:05}-{j}").into_bytes();
                        let vlen = if big && trng.chance(1, 4) { 20000 + trng.usize(12000) } else { trng.usize(200) };
                        let value = vec![(id % 251) as u8; vlen];
                        wb.put(&key, id, &value).unwrap();
                        entries.push(Entry { key, ts: id, value: Some(value) });
                    }
                    let invoke = clock.fetch_add(1, Ordering::SeqCst);
                    let r = log.append(wb);
                    let seq = shim_seq();
                    let ret = clock.fetch_add(1, Ordering::SeqCst);
                    mine.push((id, entries, invoke, ret, seq, r.is_ok()));
                    if trng.chance(1, 8) {
                        std::thread::yield_now();
                    }
                }
                mine
            }));
        }
        let mut appended: Vec<(u64, Vec<Entry>, u64, u64, Option<u64>, bool)> = Vec::new();
        let mut died = false;
        for h in handles {
            match h.join() {
                Ok(m) => appended.extend(m),
                Err(_) => died = true,
            }
        }
        if died {
            rep.violation("c12", "conc:appender-panicked", json!({"run": run_no, "threads": threads}));
            continue;
        }
        let log = match Arc::try_unwrap(log) {
            Ok(l) => l,
            Err(_) => {
                rep.inconclusive.push("log still shared".into());
                continue;
            }
        };
        let sealed = log.seal();
        let file_setsum = match &sealed {
            Ok((s, _)) => Some(s.hexdigest()),
            Err(_) => None,
        };
        drop(sealed);
        rep.evaluations += 1;
        rep.count("conc.appends", appended.len() as u64);
        rep.count("conc.threads", threads as u64);
        let failed = appended.iter().filter(|a| !a.5).count();
        if failed > 0 {
            rep.violation("c12", "conc:append-error", json!({"run": run_no, "failed": failed}));
            continue;
        }
        // read back: every batch exactly once and whole, batches of one thread in program order
        let bytes = std::fs::read(&path).unwrap_or_default();
        let (got, err) = drain(&bytes);
        if let Some(e) = err {
            rep.violation("c12", "conc:readback-error", json!({"run": run_no, "error": e}));
            continue;
        }
        let mut by_id: std::collections::HashMap<u64, Vec<Entry>> = std::collections::HashMap::new();
        let mut order: Vec<u64> = Vec::new();
        for e in &got {
            let v = by_id.entry(e.ts).or_default();
            if v.is_empty() {
                order.push(e.ts);
            }
            v.push(e.clone());
        }
        let mut bad = None;
        for (id, entries, _, _, _, _) in &appended {
            match by_id.get(id) {
                Some(g) if g == entries => {}
                Some(g) => {
                    bad = Some(format!("batch {id:#x}: {} entries appended, {} found (duplicated or torn)", entries.len(), g.len()));
                }
                None => bad = Some(format!("batch {id:#x} missing from the file")),
            }
        }
        if by_id.len() != appended.len() {
            bad = Some(format!("{} distinct batches in the file, {} appended", by_id.len(), appended.len()));
        }
        // contiguity: the entries of one batch must be adjacent
        let mut seen_done: std::collections::HashSet<u64> = std::collections::HashSet::new();
        let mut cur = u64::MAX;
        for e in &got {
            if e.ts != cur {
                if seen_done.contains(&e.ts) {
                    bad = Some(format!("batch {:#x} is interleaved with another batch", e.ts));
                }
                if cur != u64::MAX {
                    seen_done.insert(cur);
                }
                cur = e.ts;
            }
        }
        // per-thread program order, and real-time order: if append A returned before B was invoked, A precedes B
        let pos: std::collections::HashMap<u64, usize> = order.iter().enumerate().map(|(i, id)| (*id, i)).collect();
        let mut by_ret: Vec<&(u64, Vec<Entry>, u64, u64, Option<u64>, bool)> = appended.iter().collect();
        by_ret.sort_by_key(|a| a.3);
        let mut max_pos_returned: Vec<(u64, usize)> = Vec::new(); // (ret stamp, max position so far)
        let mut m = 0usize;
        for a in &by_ret {
            m = m.max(*pos.get(&a.0).unwrap_or(&0));
            max_pos_returned.push((a.3, m));
        }
        for a in &appended {
            // all appends that returned before this one was invoked must sit earlier in the file
            let k = max_pos_returned.partition_point(|(ret, _)| *ret < a.2);
            if k > 0 {
                let (_, maxpos) = max_pos_returned[k - 1];
                if let Some(p) = pos.get(&a.0) {
                    if *p < maxpos && bad.is_none() {
                        bad = Some(format!("batch {:#x} was invoked after another append had returned, yet sits before it in the file", a.0));
                    }
                }
            }
        }
        if let Some(b) = bad {
            rep.violation("c12", "conc:file-content", json!({"run": run_no, "threads": threads, "message": b}));
            continue;
        }
        // setsum of the sealed log equals the setsum of everything appended
        let mut acc = sst::Setsum::default();
        for e in &got {
            match &e.value {
                Some(v) => acc.put(&e.key, e.ts, v),
                None => acc.del(&e.key, e.ts),
            }
        }
        if file_setsum.as_deref() != Some(&acc.hexdigest()) {
            rep.violation("c12", "conc:setsum", json!({"run": run_no, "sealed": file_setsum, "recomputed": acc.hexdigest()}));
            continue;
        }
        // coalescing observed: fewer frames than batches
        let mut frames = 0u64;
        {
            // count frames by walking headers: a frame starts where the previous ended
            let mut off = 0usize;
            while off < bytes.len() {
                let hs = bytes[off] as usize;
                if hs == 0 {
                    off = ((off as u64 / BLOCK + 1) * BLOCK) as usize;
                    continue;
                }
                // size varint follows tag 0x50
                let mut sz = 0u64;
                let mut sh = 0;
                let mut i = off + 2;
                while i < bytes.len() {
                    sz |= ((bytes[i] & 0x7f) as u64) << sh;
                    sh += 7;
                    if bytes[i] & 0x80 == 0 {
                        break;
                    }
                    i += 1;
                }
                frames += 1;
                off += 1 + hs + sz as usize;
            }
        }
        rep.count("conc.frames", frames);
        if (frames as usize) < appended.len() {
            rep.count("conc.runs_with_coalesced_appends", 1);
            let mut h = SHash::default();
            h.u64(run_no).u64(frames).u64(threads as u64).u64(appended.len() as u64);
            rep.nontrivial.insert(h.get());
        }
        rep.sample(json!({"run": run_no, "threads": threads, "appends": appended.len(), "frames": frames, "file_bytes": bytes.len()}));
        if events_path.is_some() {
            // one line per append for the durability checker: file, id, return stamp (shim seq)
            for (id, entries, _, _, seq, _) in &appended {
                let first_key = hex(&entries[0].key);
                let last = &entries[entries.len() - 1];
                let last_len = last.value.as_ref().map(|v| v.len()).unwrap_or(0);
                events_out.push(format!("{}\t{}\t{}\t{}\t{}\t{}", path.display(), id, seq.map(|s| s as i64).unwrap_or(-1), first_key, hex(&last.key), last_len));
            }
        } else {
            let _ = std::fs::remove_file(&path);
        }
    }
    if let Some(p) = events_path {
        std::fs::write(p, events_out.join("\n") + "\n").unwrap();
        let mut s = scratch;
        s.keep();
        rep.notes.insert("scratch".into(), json!(s.str()));
    }
    rep.finish(args);
}
