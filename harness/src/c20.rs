//! C20 directed monitor: two compaction threads across a pair of consecutive rewriting compactions
//! whose staging directories have the same name.
//!
//! A rewriting compaction stages its outputs under compaction/<sum of its inputs>.  When it
//! discards nothing, the sum of its outputs is the same value, so a following compaction whose
//! inputs are exactly those outputs stages under the same name.  Pass 1 finds such pairs in
//! single-stepped E1 histories (they are rare: a few per thousand rewriting compactions); pass 2
//! replays the history up to the first compaction of the pair, hands the store to two real
//! compaction threads and delays each thread once right after it applied a compaction (a yield
//! point that holds no lock).  Both threads must come to rest without an error, and the store
//! must still read as the model says.  A compaction thread that returns an error is gone for good:
//! with every compaction thread gone, writes stall forever (the property's "never wait forever").

use std::sync::atomic::{AtomicU64, Ordering};
use std::time::{Duration, Instant};

use serde_json::json;

use crate::e1::History;
use crate::util::*;

static DELAYS_LEFT: AtomicU64 = AtomicU64::new(0);
static DELAY_MS: AtomicU64 = AtomicU64::new(0);
static REACHED: AtomicU64 = AtomicU64::new(0);

fn delay_after_apply(site: &'static str) {
    if std::env::var("VH_TRACE_LEVELS").is_ok() {
        eprintln!("{:?} {:?} at {site}", std::time::SystemTime::now().duration_since(std::time::UNIX_EPOCH).unwrap().as_millis() % 100000, std::thread::current().id());
    }
    if site == "compaction:applied" {
        let left = DELAYS_LEFT.load(Ordering::SeqCst);
        if left > 0 && DELAYS_LEFT.compare_exchange(left, left - 1, Ordering::SeqCst, Ordering::SeqCst).is_ok() {
            REACHED.store(1, Ordering::SeqCst);
            std::thread::sleep(Duration::from_millis(DELAY_MS.load(Ordering::SeqCst)));
        }
    }
}

pub fn run(args: &Args) {
    let mut rep = Report::new("c20race", args);
    rep.max_samples = 3;
    let histories = args.u64("histories", 40);
    let steps = args.u64("steps", 120) as usize;
    let delay = args.u64("delay_ms", 300);
    let (seed, shard) = (rep.seed, rep.shard);
    let scratch = Scratch::new("c20race");
    let only = args.opt("history").map(|c| c.parse::<u64>().unwrap());
    quiet_panics();
    for hno in 0..histories {
        if only.is_some() && only != Some(hno) {
            continue;
        }
        // pass 1: single-stepped, find the pairs
        let mk = |tag: &str| {
            let mut rng = Rng::derive(seed, "c20race", shard, hno);
            let tmode = rng.chance(1, 3);
            let h = History::new(&mut rng, &scratch, tag, "C05", tmode);
            (rng, h)
        };
        let (mut rng, mut h) = mk(&format!("p1-{hno}"));
        let viol = h.run(&mut rng, &scratch, steps);
        rep.count("pass1.histories", 1);
        rep.count("pass1.rewriting_compactions", *h.cov.get("steps.merge").unwrap_or(&0) + *h.cov.get("steps.gc").unwrap_or(&0));
        let pairs = h.staging_pairs.clone();
        let _ = std::fs::remove_dir_all(&h.root);
        if viol.is_some() && pairs.is_empty() {
            rep.count("pass1.histories_ended_early", 1);
            continue;
        }
        rep.count("pass1.pairs_staging_under_one_name", pairs.len() as u64);
        for (pi, call) in pairs.iter().take(2).enumerate() {
            // pass 2: replay up to the first compaction of the pair, then real threads
            let (mut rng, mut h) = mk(&format!("p2-{hno}-{pi}"));
            h.stop_before_call = Some(*call);
            let stop = h.run_keep_open(&mut rng, &scratch, steps);
            match stop {
                Some(v) if v.prop == "stop" => {}
                other => {
                    rep.count("pass2.replays_that_did_not_reach_the_pair", 1);
                    if let Some(v) = other {
                        rep.notes.insert(format!("replay_{hno}_{pi}"), json!(format!("{}: {}", v.sig, v.msg)));
                    }
                    h.close();
                    let _ = std::fs::remove_dir_all(&h.root);
                    continue;
                }
            }
            rep.evaluations += 1;
            let mut hh = SHash::default();
            hh.u64(seed).u64(shard).u64(hno).u64(*call);
            rep.nontrivial.insert(hh.get());
            let base_parked = lsmtk::verif::PARKED[lsmtk::verif::COMPACT].load(Ordering::SeqCst);
            let done_before = lsmtk::verif::COMPACTIONS_DONE.load(Ordering::SeqCst);
            DELAY_MS.store(delay, Ordering::SeqCst);
            DELAYS_LEFT.store(1, Ordering::SeqCst);
            REACHED.store(0, Ordering::SeqCst);
            lsmtk::verif::set_yield(Some(delay_after_apply));
            lsmtk::verif::set_single_step(false);
            // the first thread runs the first compaction of the pair and is held right after
            // applying it; only then does the second thread start
            let mut threads = h.backend_threads(1);
            let t0 = Instant::now();
            while REACHED.load(Ordering::SeqCst) == 0 && t0.elapsed() < Duration::from_secs(10) && !threads[0].is_finished() {
                std::thread::sleep(Duration::from_millis(1));
            }
            if REACHED.load(Ordering::SeqCst) == 1 {
                rep.count("pass2.second_thread_started_while_first_is_held_after_apply", 1);
            }
            threads.extend(h.backend_threads(1));
            let mut errors: Vec<String> = Vec::new();
            let mut at_rest = false;
            loop {
                std::thread::sleep(Duration::from_millis(20));
                let finished = threads.iter().filter(|t| t.is_finished()).count();
                let parked = lsmtk::verif::PARKED[lsmtk::verif::COMPACT].load(Ordering::SeqCst) - base_parked;
                if finished + parked as usize == 2 {
                    // confirm over two more samples
                    std::thread::sleep(Duration::from_millis(60));
                    let finished2 = threads.iter().filter(|t| t.is_finished()).count();
                    let parked2 = lsmtk::verif::PARKED[lsmtk::verif::COMPACT].load(Ordering::SeqCst) - base_parked;
                    if finished2 + parked2 as usize == 2 {
                        at_rest = true;
                        break;
                    }
                }
                if t0.elapsed() > Duration::from_secs(30) {
                    break;
                }
            }
            let compactions = lsmtk::verif::COMPACTIONS_DONE.load(Ordering::SeqCst) - done_before;
            rep.count("pass2.compactions_run_by_the_two_threads", compactions);
            let mut finished = 0;
            for t in threads {
                if t.is_finished() {
                    finished += 1;
                    match t.join() {
                        Ok(Ok(())) => errors.push("returned Ok".into()),
                        Ok(Err(e)) => errors.push(e),
                        Err(_) => errors.push("panicked".into()),
                    }
                }
            }
            lsmtk::verif::set_yield(None);
            lsmtk::verif::set_single_step(true);
            let replay = format!("vh c20race seed={seed} shard={shard} histories={} steps={steps} history={hno}", hno + 1);
            if !at_rest {
                rep.inconclusive.push(format!("history {hno}: the two compaction threads did not come to rest within 30 s"));
            } else if finished > 0 {
                let first = errors.first().cloned().unwrap_or_default();
                let staging = first.contains("/compaction/");
                let sig = if staging { "compaction-thread-dies:staging-directory-shared-with-predecessor".to_string() } else { format!("compaction-thread-dies:{}", crate::e1::err_code(&first)) };
                rep.violation("c20race", &sig, json!({"history": hno, "compaction_call": call, "threads_that_stopped": finished,
                    "errors": errors, "message": format!("{finished} of 2 compaction threads stopped with an error while running two consecutive compactions whose staging directories have the same name; a stopped compaction thread never compacts again"),
                    "config": h.cfg.json(), "replay": replay}));
            } else {
                rep.count("pass2.pairs_run_by_two_threads_without_error", 1);
                // and the contents are intact
                if let Err(v) = h.reads_ok() {
                    rep.violation("c20race", &format!("reads-after-concurrent-pair:{}", v.sig), json!({"history": hno, "message": v.msg, "replay": replay}));
                }
            }
            if rep.want_sample() {
                rep.sample(json!({"history": hno, "compaction_call_of_first_of_pair": call, "compactions_run_by_threads": compactions, "config": h.cfg.json()}));
            }
            // the threads are parked on the store's condition variable: leave the store alone
            h.leak_backend();
            if finished == 2 {
                let _ = std::fs::remove_dir_all(&h.root);
            }
        }
    }
    rep.finish(args);
}
