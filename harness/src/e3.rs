//! Engine E3 — concurrent histories of the real store with its real flush and compaction threads
//! (C06; the concurrent halves of C07 and C20; the ledger under concurrency for C04).
//!
//! One run = one child process: N client threads issue pre-generated puts, deletes, batches,
//! point reads, scans and held cursors against a KeyValueStore over very few keys, in rounds
//! separated by a barrier, while memtable_thread and 1..K compaction_thread loops run for real and
//! a yield hook injects sleeps between the store's critical sections.  Every client call is
//! recorded at the client boundary with invoke / return stamps from one logical clock; every value
//! is unique.  After the run a Wing-Gong style search decides, round by round, whether the recorded
//! history has a linearization against a sequential map in which batches are atomic multi-key
//! writes and scans (including cursors drained long after they were opened) are atomic multi-key
//! reads placed inside the range_scan() call.  A monitor thread watches the park registry: if the
//! ingest is parked on `stall`, every compaction thread is parked on `compact` and the registry's
//! generation stands still over consecutive samples, the store is deadlocked (C20).

use std::collections::{BTreeMap, HashMap, HashSet};
use std::ops::Bound;
use std::path::PathBuf;
use std::process::Command;
use std::sync::atomic::{AtomicBool, AtomicU64, AtomicUsize, Ordering};
use std::sync::{Arc, Barrier, Mutex};
use std::time::{Duration, Instant};

use lsmtk::{KeyValueStore, WriteBatch};
use serde_json::json;
use sst::Cursor;

use crate::e1::{Config, History};
use crate::r#gen::{Entry, Move, RefCursor, apply_real, current_real};
use crate::util::*;

static CLOCK: AtomicU64 = AtomicU64::new(1);
fn tick() -> u64 {
    CLOCK.fetch_add(1, Ordering::SeqCst)
}

////////////////////////////////////////////// yields //////////////////////////////////////////////

static YIELD_PCT: AtomicU64 = AtomicU64::new(0);
static YIELD_MAX_US: AtomicU64 = AtomicU64::new(0);
static YIELD_HOT: AtomicU64 = AtomicU64::new(0); // hash of the site that gets long sleeps
static YIELDS_TAKEN: AtomicU64 = AtomicU64::new(0);
static SLOW_THREAD_MASK: AtomicU64 = AtomicU64::new(0);

thread_local! {
    static TL_RNG: std::cell::Cell<u64> = const { std::cell::Cell::new(0) };
    static TL_ID: std::cell::Cell<u64> = const { std::cell::Cell::new(63) };
}

fn tl_next() -> u64 {
    TL_RNG.with(|c| {
        let mut x = c.get();
        if x == 0 {
            x = 0x9E37_79B9_7F4A_7C15 ^ (std::thread::current().id().as_u64_hack() << 17);
        }
        x ^= x << 13;
        x ^= x >> 7;
        x ^= x << 17;
        c.set(x);
        x
    })
}

trait ThreadIdHack {
    fn as_u64_hack(&self) -> u64;
}
impl ThreadIdHack for std::thread::ThreadId {
    fn as_u64_hack(&self) -> u64 {
        let s = format!("{self:?}");
        s.bytes().filter(|b| b.is_ascii_digit()).fold(0u64, |a, b| a * 10 + (b - b'0') as u64)
    }
}

fn site_hash(site: &str) -> u64 {
    let mut h = SHash::default();
    h.str(site);
    h.get() | 1
}

fn yielder(site: &'static str) {
    let pct = YIELD_PCT.load(Ordering::Relaxed);
    if pct == 0 {
        return;
    }
    let r = tl_next();
    let hot = YIELD_HOT.load(Ordering::Relaxed) == site_hash(site);
    let slow = TL_ID.with(|c| (SLOW_THREAD_MASK.load(Ordering::Relaxed) >> c.get()) & 1 == 1);
    let p = if hot || slow { (pct * 3).min(90) } else { pct };
    if r % 100 >= p {
        return;
    }
    YIELDS_TAKEN.fetch_add(1, Ordering::Relaxed);
    let max = YIELD_MAX_US.load(Ordering::Relaxed).max(1);
    match (r >> 8) % 3 {
        0 => std::thread::yield_now(),
        _ => {
            let us = (r >> 16) % max * if hot || slow { 4 } else { 1 };
            std::thread::sleep(Duration::from_micros(us));
        }
    }
}

////////////////////////////////////////////// the plan ////////////////////////////////////////////

#[derive(Clone, Debug)]
enum Kind {
    Put(usize, u32),
    Del(usize),
    Batch(Vec<(usize, Option<u32>)>),
    Get(usize),
    /// scan of keys lo..=hi; `hold`: keep the cursor and drain it at the very end
    Scan { lo: usize, hi: usize, hold: bool },
}

impl Kind {
    fn show(&self) -> String {
        match self {
            Kind::Put(k, v) => format!("put(k{k}, v{v})"),
            Kind::Del(k) => format!("del(k{k})"),
            Kind::Batch(ops) => format!("batch[{}]", ops.iter().map(|(k, v)| match v { Some(v) => format!("k{k}=v{v}"), None => format!("k{k}=x") }).collect::<Vec<_>>().join(",")),
            Kind::Get(k) => format!("get(k{k})"),
            Kind::Scan { lo, hi, hold } => format!("{}(k{lo}..=k{hi})", if *hold { "held-scan" } else { "scan" }),
        }
    }
    fn is_write(&self) -> bool {
        matches!(self, Kind::Put(..) | Kind::Del(..) | Kind::Batch(..))
    }
}

#[derive(Clone, Debug, PartialEq)]
enum Res {
    Ok,
    Got(Option<u32>),
    Snap(Vec<(usize, u32)>),
    Fail(String),
}

#[derive(Clone, Debug)]
struct Rec {
    thread: usize,
    round: usize,
    kind: Kind,
    call: u64,
    ret: u64,
    res: Res,
    /// store events (flushes + compactions completed) between a held scan's open and its drain
    events_while_held: u64,
}

struct Plan {
    cfg: Config,
    keys: Vec<Vec<u8>>,
    clients: usize,
    compactors: usize,
    rounds: usize,
    ops: Vec<Vec<Vec<Kind>>>, // [thread][round] -> ops
    val_len: Vec<usize>,      // by value id
    yield_pct: u64,
    yield_max_us: u64,
    hot_site: &'static str,
    slow_mask: u64,
    registry: bool,
}

const SITES: &[&str] = &[
    "write:sequenced", "write:logged", "write:inserted", "flush:memtable-swapped", "flush:sst-built", "flush:ingested",
    "flush:log-trashed", "ingest:linked", "compaction:linked", "compaction:applied", "compaction:move", "insert:before-cas",
];

fn plan(seed: u64, shard: u64, run: u64, focus: &str, scale: u64) -> Plan {
    let mut rng = Rng::derive(seed, "e3", shard, run);
    let mut cfg = Config::random(&mut rng, focus);
    cfg.memtable = *rng.pick(&[1usize, 128, 512, 2048, 8192]);
    cfg.target_file = 4096;
    cfg.l0_mandatory = *rng.pick(&[1usize, 2, 4]);
    cfg.l0_stall = cfg.l0_mandatory + 1 + rng.usize(4);
    cfg.max_open = 1 << 19;
    if focus == "C20" {
        cfg.memtable = *rng.pick(&[1usize, 1, 64]);
        cfg.l0_mandatory = *rng.pick(&[1usize, 2]);
        cfg.l0_stall = cfg.l0_mandatory + 1;
        cfg.max_files = *rng.pick(&[8usize, 16, 64]);
        cfg.max_bytes = *rng.pick(&[8192usize, 1 << 29]);
    }
    if focus == "C07" {
        cfg.cache = 0;
    }
    let nkeys = 3 + rng.usize(8);
    // keys far apart and keys adjacent in the skip list
    let mut keys: Vec<Vec<u8>> = (0..nkeys).map(|i| format!("key{:03}", i * 7).into_bytes()).collect();
    if rng.chance(1, 3) {
        keys[0] = Vec::new();
    }
    keys.sort();
    keys.dedup();
    let nkeys = keys.len();
    let clients = 2 + rng.usize(if focus == "C20" { 3 } else { 5 });
    let compactors = 1 + rng.usize(3);
    let rounds = ((12 + rng.usize(28)) as u64 * scale.max(1)) as usize;
    let mut next_val = 1u32;
    let mut val_len = vec![0usize];
    let mut ops: Vec<Vec<Vec<Kind>>> = Vec::new();
    let write_heavy = focus == "C20" || rng.chance(1, 3);
    let held_bias = if focus == "C07" { 3 } else { 1 };
    for _t in 0..clients {
        let mut per_round = Vec::new();
        for _r in 0..rounds {
            let n = 1 + rng.usize(6);
            let mut v = Vec::new();
            for _ in 0..n {
                let mut fresh = |rng: &mut Rng| {
                    let id = next_val;
                    next_val += 1;
                    val_len.push(match rng.below(8) {
                        0 => 700 + rng.usize(1500),
                        _ => 8 + rng.usize(40),
                    });
                    id
                };
                let roll = rng.below(100);
                let k = rng.usize(nkeys);
                let (w_put, w_del, w_batch, w_get, w_scan) = if write_heavy { (45, 8, 22, 12, 9) } else { (25, 7, 20, 24, 16) };
                let kind = if roll < w_put {
                    Kind::Put(k, fresh(&mut rng))
                } else if roll < w_put + w_del {
                    Kind::Del(k)
                } else if roll < w_put + w_del + w_batch {
                    let m = 2 + rng.usize(3.min(nkeys - 1));
                    let mut used = HashSet::new();
                    let mut b = Vec::new();
                    for _ in 0..m {
                        let kk = rng.usize(nkeys);
                        if used.insert(kk) {
                            if rng.chance(1, 6) {
                                b.push((kk, None));
                            } else {
                                b.push((kk, Some(fresh(&mut rng))));
                            }
                        }
                    }
                    Kind::Batch(b)
                } else if roll < w_put + w_del + w_batch + w_get {
                    Kind::Get(k)
                } else {
                    let _ = w_scan;
                    let (a, b) = (rng.usize(nkeys), rng.usize(nkeys));
                    let (lo, hi) = if rng.chance(1, 2) { (0, nkeys - 1) } else { (a.min(b), a.max(b)) };
                    Kind::Scan { lo, hi, hold: rng.below(10) < 3 * held_bias }
                };
                v.push(kind);
            }
            per_round.push(v);
        }
        ops.push(per_round);
    }
    let mut yield_pct = *rng.pick(&[0u64, 5, 15, 30, 30, 50]);
    let mut yield_max_us = *rng.pick(&[50u64, 300, 1500]);
    let mut hot_site = SITES[rng.usize(SITES.len())];
    if focus == "C20" {
        // slow compactions, fast flushes: level 0 reaches the stall threshold
        yield_pct = *rng.pick(&[20u64, 30, 50]);
        yield_max_us = *rng.pick(&[1500u64, 4000]);
        hot_site = *rng.pick(&["compaction:move", "compaction:move", "compaction:linked", "compaction:applied"]);
    }
    Plan {
        cfg,
        keys,
        clients,
        compactors,
        rounds,
        ops,
        val_len,
        yield_pct,
        yield_max_us,
        hot_site,
        slow_mask: if rng.chance(1, 2) { 1 << rng.usize(clients) } else { 0 },
        registry: rng.chance(1, 4),
    }
}

fn encode_val(id: u32, len: usize) -> Vec<u8> {
    let mut v = format!("v{id:07}").into_bytes();
    v.resize(v.len().max(len), b'.');
    v
}

fn decode_val(b: &[u8]) -> Option<u32> {
    if b.len() < 8 || b[0] != b'v' {
        return None;
    }
    let id = std::str::from_utf8(&b[1..8]).ok()?.parse::<u32>().ok()?;
    if b[8..].iter().any(|c| *c != b'.') {
        return None;
    }
    Some(id)
}

////////////////////////////////////////////// the run /////////////////////////////////////////////

struct HeldCursor {
    rec: usize,
    cursor: Box<dyn Cursor>,
    moves: Vec<Move>,
    obs: Vec<Option<(Vec<u8>, Option<Vec<u8>>)>>,
    events_at_open: u64,
}

fn store_events() -> u64 {
    lsmtk::verif::FLUSHES_DONE.load(Ordering::SeqCst) + lsmtk::verif::COMPACTIONS_DONE.load(Ordering::SeqCst)
}

struct Shared {
    kvs: &'static KeyValueStore,
    plan: Plan,
    barrier: Barrier,
    done_ops: AtomicU64,
    gate: AtomicU64,
    finished_clients: AtomicUsize,
    abort: AtomicBool,
}

fn scan_bounds(plan: &Plan, lo: usize, hi: usize) -> (&'static Bound<Vec<u8>>, &'static Bound<Vec<u8>>) {
    let full = lo == 0 && hi == plan.keys.len() - 1;
    let sb = if full { Bound::Unbounded } else { Bound::Included(plan.keys[lo].clone()) };
    let eb = if full { Bound::Unbounded } else { Bound::Included(plan.keys[hi].clone()) };
    (Box::leak(Box::new(sb)), Box::leak(Box::new(eb)))
}

fn drain(c: &mut dyn Cursor) -> Result<Vec<(Vec<u8>, Option<Vec<u8>>)>, String> {
    c.seek_to_first().map_err(|e| e.to_string())?;
    let mut out = Vec::new();
    loop {
        c.next().map_err(|e| e.to_string())?;
        match c.key_value() {
            Some(kv) => out.push((kv.key.to_vec(), kv.value.map(|v| v.to_vec()))),
            None => break,
        }
        if out.len() > 10_000 {
            return Err("cursor does not terminate".into());
        }
    }
    Ok(out)
}

fn to_snap(plan: &Plan, raw: &[(Vec<u8>, Option<Vec<u8>>)]) -> Res {
    let mut out = Vec::new();
    for (k, v) in raw {
        let Some(ki) = plan.keys.iter().position(|x| x == k) else {
            return Res::Fail(format!("unwritten-key: scan returned key {}", show(k)));
        };
        match v {
            None => return Res::Fail(format!("scan-returned-tombstone: key {}", show(k))),
            Some(v) => match decode_val(v) {
                Some(id) if (id as usize) < plan.val_len.len() && v.len() == encode_val(id, plan.val_len[id as usize]).len() => out.push((ki, id)),
                _ => return Res::Fail(format!("unwritten-value: scan returned {} = {}", show(k), show(&v[..v.len().min(16)]))),
            },
        }
    }
    Res::Snap(out)
}

fn client(sh: Arc<Shared>, t: usize) -> Vec<Rec> {
    TL_ID.with(|c| c.set(t as u64));
    let plan = &sh.plan;
    let kvs = sh.kvs;
    let mut recs: Vec<Rec> = Vec::new();
    let mut held: Vec<HeldCursor> = Vec::new();
    let mut rng = Rng::new(0xC11E ^ (t as u64) << 32 ^ plan.rounds as u64);
    for round in 0..plan.rounds {
        sh.barrier.wait();
        // leave the barrier together: futex wake-ups trickle, a spin does not
        sh.gate.fetch_add(1, Ordering::SeqCst);
        let target = (plan.clients * (round + 1)) as u64;
        let mut spins = 0u64;
        while sh.gate.load(Ordering::SeqCst) < target && spins < 2_000_000 {
            std::hint::spin_loop();
            spins += 1;
        }
        if sh.abort.load(Ordering::SeqCst) {
            continue;
        }
        for kind in &plan.ops[t][round] {
            let call = tick();
            let mut ret_early: Option<u64> = None;
            let mut held_new: Option<Box<dyn Cursor>> = None;
            let r = guarded(|| -> Result<Res, String> {
                match kind {
                    Kind::Put(k, v) => kvs.put(&plan.keys[*k], &encode_val(*v, plan.val_len[*v as usize])).map(|_| Res::Ok).map_err(|e| e.to_string()),
                    Kind::Del(k) => kvs.del(&plan.keys[*k]).map(|_| Res::Ok).map_err(|e| e.to_string()),
                    Kind::Batch(ops) => {
                        let mut wb = WriteBatch::with_capacity(ops.len());
                        for (k, v) in ops {
                            match v {
                                Some(v) => wb.put(&plan.keys[*k], &encode_val(*v, plan.val_len[*v as usize])),
                                None => wb.del(&plan.keys[*k]),
                            }
                        }
                        kvs.write(wb).map(|_| Res::Ok).map_err(|e| e.to_string())
                    }
                    Kind::Get(k) => {
                        let mut tomb = false;
                        let got = kvs.load(&plan.keys[*k], &mut tomb).map_err(|e| e.to_string())?;
                        Ok(match got {
                            None => Res::Got(None),
                            Some(v) => match decode_val(&v) {
                                Some(id) if (id as usize) < plan.val_len.len() && v.len() == encode_val(id, plan.val_len[id as usize]).len() => Res::Got(Some(id)),
                                _ => Res::Fail(format!("unwritten-value: get returned {}", show(&v[..v.len().min(16)]))),
                            },
                        })
                    }
                    Kind::Scan { lo, hi, hold } => {
                        let (sb, eb) = scan_bounds(plan, *lo, *hi);
                        let c = kvs.range_scan(sb, eb).map_err(|e| e.to_string())?;
                        ret_early = Some(tick());
                        let mut c: Box<dyn Cursor> = Box::new(c);
                        if *hold {
                            held_new = Some(c);
                            Ok(Res::Ok) // filled in when drained
                        } else {
                            let raw = drain(c.as_mut())?;
                            Ok(to_snap(plan, &raw))
                        }
                    }
                }
            });
            let ret = ret_early.unwrap_or_else(tick);
            let res = match r {
                Ok(Ok(res)) => res,
                Ok(Err(e)) => Res::Fail(format!("error: {e}")),
                Err(p) => Res::Fail(format!("panic: {p}")),
            };
            recs.push(Rec { thread: t, round, kind: kind.clone(), call, ret, res, events_while_held: 0 });
            if let Some(c) = held_new {
                held.push(HeldCursor { rec: recs.len() - 1, cursor: c, moves: Vec::new(), obs: Vec::new(), events_at_open: store_events() });
            }
            sh.done_ops.fetch_add(1, Ordering::SeqCst);
        }
        // walk the held cursors a little
        for h in held.iter_mut() {
            let n = rng.usize(4);
            for _ in 0..n {
                let m = match rng.below(8) {
                    0 => Move::SeekToFirst,
                    1 => Move::SeekToLast,
                    2 => Move::Seek(rng.pick(&plan.keys).clone()),
                    3 | 4 => Move::Prev,
                    _ => Move::Next,
                };
                let r = guarded(|| apply_real(&mut h.cursor, &m).map_err(|e| e.to_string()));
                match r {
                    Ok(Ok(())) => {
                        let cur = current_real(&h.cursor).map(|e| (e.key, e.value));
                        h.moves.push(m);
                        h.obs.push(cur);
                    }
                    Ok(Err(e)) => recs[h.rec].res = Res::Fail(format!("error: held cursor {}: {e}", m.show())),
                    Err(p) => recs[h.rec].res = Res::Fail(format!("panic: held cursor {}: {p}", m.show())),
                }
            }
        }
        // some cursors are dropped (drained) early so that releases interleave with store events
        let mut i = 0;
        while i < held.len() {
            if rng.chance(1, 6) {
                let h = held.swap_remove(i);
                finish_held(plan, &mut recs, h);
            } else {
                i += 1;
            }
        }
    }
    sh.barrier.wait();
    for h in held.drain(..) {
        finish_held(plan, &mut recs, h);
    }
    sh.finished_clients.fetch_add(1, Ordering::SeqCst);
    recs
}

fn finish_held(plan: &Plan, recs: &mut [Rec], mut h: HeldCursor) {
    if matches!(recs[h.rec].res, Res::Fail(_)) {
        return;
    }
    let r = guarded(|| drain(h.cursor.as_mut()));
    recs[h.rec].events_while_held = store_events() - h.events_at_open;
    let raw = match r {
        Ok(Ok(raw)) => raw,
        Ok(Err(e)) => {
            recs[h.rec].res = Res::Fail(format!("error: draining a held cursor: {e}"));
            return;
        }
        Err(p) => {
            recs[h.rec].res = Res::Fail(format!("panic: draining a held cursor: {p}"));
            return;
        }
    };
    // the walk must have moved over exactly this list
    let entries: Vec<Entry> = raw.iter().map(|(k, v)| Entry { key: k.clone(), ts: 0, value: v.clone() }).collect();
    let mut rc = RefCursor::new(&entries);
    for (m, o) in h.moves.iter().zip(h.obs.iter()) {
        rc.apply(m);
        let want = rc.current().map(|e| (e.key.clone(), e.value.clone()));
        if want != *o {
            recs[h.rec].res = Res::Fail(format!(
                "cursor-unstable: after {} the held cursor showed {:?} but its own final drain has {:?} at that position",
                m.show(),
                o.as_ref().map(|x| show(&x.0)),
                want.as_ref().map(|x| show(&x.0))
            ));
            return;
        }
    }
    recs[h.rec].res = to_snap(plan, &raw);
    drop(h.cursor);
}

/////////////////////////////////////////// linearizability ////////////////////////////////////////

type State = Vec<Option<u32>>;

fn step(state: &State, r: &Rec) -> Option<State> {
    match (&r.kind, &r.res) {
        (Kind::Put(k, v), Res::Ok) => {
            let mut s = state.clone();
            s[*k] = Some(*v);
            Some(s)
        }
        (Kind::Del(k), Res::Ok) => {
            let mut s = state.clone();
            s[*k] = None;
            Some(s)
        }
        (Kind::Batch(ops), Res::Ok) => {
            let mut s = state.clone();
            for (k, v) in ops {
                s[*k] = *v;
            }
            Some(s)
        }
        (Kind::Get(k), Res::Got(v)) => {
            if state[*k] == *v { Some(state.clone()) } else { None }
        }
        (Kind::Scan { lo, hi, .. }, Res::Snap(snap)) => {
            let want: Vec<(usize, u32)> = (*lo..=*hi).filter_map(|k| state[k].map(|v| (k, v))).collect();
            if &want == snap { Some(state.clone()) } else { None }
        }
        _ => None,
    }
}

struct Search<'a> {
    threads: Vec<Vec<&'a Rec>>,
    visited: HashSet<(Vec<u8>, State)>,
    finals: HashSet<State>,
    nodes: u64,
    budget: u64,
    deepest: (usize, Vec<u8>, State),
}

impl<'a> Search<'a> {
    fn dfs(&mut self, idx: &mut Vec<u8>, state: &State) {
        if self.nodes >= self.budget {
            return;
        }
        self.nodes += 1;
        if !self.visited.insert((idx.clone(), state.clone())) {
            return;
        }
        let depth: usize = idx.iter().map(|x| *x as usize).sum();
        if depth > self.deepest.0 || self.deepest.1.is_empty() {
            self.deepest = (depth, idx.clone(), state.clone());
        }
        let mut any = false;
        // the earliest return among the next unlinearized operations bounds who may go next
        let mut min_ret = u64::MAX;
        for (t, ops) in self.threads.iter().enumerate() {
            if let Some(r) = ops.get(idx[t] as usize) {
                any = true;
                min_ret = min_ret.min(r.ret);
            }
        }
        if !any {
            self.finals.insert(state.clone());
            return;
        }
        for t in 0..self.threads.len() {
            let Some(r) = self.threads[t].get(idx[t] as usize).copied() else { continue };
            if r.call > min_ret {
                continue; // some other pending operation returned before this one was invoked
            }
            if let Some(s2) = step(state, r) {
                idx[t] += 1;
                self.dfs(idx, &s2);
                idx[t] -= 1;
            }
        }
    }
}

#[derive(Debug)]
struct Viol {
    prop: &'static str,
    sig: String,
    msg: String,
    detail: serde_json::Value,
}

fn show_rec(r: &Rec) -> String {
    let res = match &r.res {
        Res::Ok => "ok".to_string(),
        Res::Got(v) => format!("-> {}", v.map(|v| format!("v{v}")).unwrap_or("none".into())),
        Res::Snap(s) => format!("-> [{}]", s.iter().map(|(k, v)| format!("k{k}=v{v}")).collect::<Vec<_>>().join(",")),
        Res::Fail(e) => format!("!! {}", &e[..e.len().min(160)]),
    };
    format!("t{} [{}..{}] {} {}{}", r.thread, r.call, r.ret, r.kind.show(), res, if r.events_while_held > 0 { format!(" (held across {} store events)", r.events_while_held) } else { String::new() })
}

/// Cheap necessary conditions, used to name the class of a non-linearizable history.
fn classify(round_recs: &[&Rec], all: &[Rec]) -> String {
    // where was each value written?
    let mut writer: HashMap<u32, &Rec> = HashMap::new();
    for r in all {
        match &r.kind {
            Kind::Put(_, v) => {
                writer.insert(*v, r);
            }
            Kind::Batch(ops) => {
                for (_, v) in ops {
                    if let Some(v) = v {
                        writer.insert(*v, r);
                    }
                }
            }
            _ => {}
        }
    }
    let writes_of = |k: usize| -> Vec<&Rec> {
        all.iter()
            .filter(|r| match &r.kind {
                Kind::Put(kk, _) | Kind::Del(kk) => *kk == k,
                Kind::Batch(ops) => ops.iter().any(|(kk, _)| *kk == k),
                _ => false,
            })
            .collect()
    };
    for r in round_recs {
        let observed: Vec<(usize, Option<u32>)> = match (&r.kind, &r.res) {
            (Kind::Get(k), Res::Got(v)) => vec![(*k, *v)],
            (Kind::Scan { lo, hi, .. }, Res::Snap(s)) => (*lo..=*hi).map(|k| (k, s.iter().find(|x| x.0 == k).map(|x| x.1))).collect(),
            _ => continue,
        };
        for (k, v) in &observed {
            if let Some(v) = v {
                let Some(w) = writer.get(v) else { return "unwritten-value".into() };
                if w.call > r.ret {
                    return "read-from-the-future".into();
                }
                // stale: some other write to k lies entirely between w and the read
                for w2 in writes_of(*k) {
                    if w2.call > w.ret && w2.ret < r.call && !std::ptr::eq(w2, *w) {
                        return if matches!(r.kind, Kind::Scan { hold: true, .. }) { "stale-read-by-held-cursor".into() } else { "stale-read".into() };
                    }
                }
            } else {
                // none: some put completed before the read began and no delete can follow it
                for w in writes_of(*k) {
                    let puts_k = match &w.kind {
                        Kind::Put(..) => true,
                        Kind::Batch(ops) => ops.iter().any(|(kk, vv)| kk == k && vv.is_some()),
                        _ => false,
                    };
                    if puts_k && w.ret < r.call {
                        let deleter_possible = writes_of(*k).iter().any(|d| {
                            let dels = match &d.kind {
                                Kind::Del(..) => true,
                                Kind::Batch(ops) => ops.iter().any(|(kk, vv)| kk == k && vv.is_none()),
                                _ => false,
                            };
                            dels && d.ret > w.call && d.call < r.ret
                        });
                        if !deleter_possible {
                            return "stale-read".into();
                        }
                    }
                }
            }
        }
        // torn batch inside one snapshot
        if let (Kind::Scan { .. }, Res::Snap(_)) = (&r.kind, &r.res) {
            for (k, v) in &observed {
                let Some(v) = v else { continue };
                let Some(w) = writer.get(v) else { continue };
                if let Kind::Batch(ops) = &w.kind {
                    for (k2, v2) in ops {
                        if k2 == k {
                            continue;
                        }
                        if let Some((_, seen2)) = observed.iter().find(|x| x.0 == *k2) {
                            if seen2 != v2 {
                                // the other key shows something else: fine only if a later write replaced it
                                let replaced = match seen2 {
                                    Some(s2) => writer.get(s2).map(|w2| w2.ret > w.call).unwrap_or(false),
                                    None => writes_of(*k2).iter().any(|d| d.ret > w.call && !std::ptr::eq(*d, *w)),
                                };
                                if !replaced {
                                    return "torn-batch-in-one-snapshot".into();
                                }
                            }
                        }
                    }
                }
            }
        }
    }
    "no-linearization".into()
}

fn check_history(plan: &Plan, all: &[Rec], cov: &mut BTreeMap<String, u64>) -> Result<(), Viol> {
    // failures recorded at the boundary come first
    for r in all {
        if let Res::Fail(e) = &r.res {
            let (class, prop): (String, &'static str) = if let Some(rest) = e.strip_prefix("panic: ") {
                (format!("panic:{}", panic_site(rest)), "C06|C07")
            } else if let Some(rest) = e.strip_prefix("error: ") {
                (format!("error:{}", crate::e1::err_code(rest)), "C06|C07")
            } else if e.starts_with("cursor-unstable") {
                ("cursor-unstable".to_string(), "C07|C06")
            } else {
                (e.split(':').next().unwrap_or("failure").to_string(), "C06|C07")
            };
            return Err(Viol { prop, sig: class, msg: format!("{}: {e}", r.kind.show()), detail: json!({"operation": show_rec(r)}) });
        }
    }
    let nkeys = plan.keys.len();
    let mut states: HashSet<State> = HashSet::new();
    states.insert(vec![None; nkeys]);
    let rounds = all.iter().map(|r| r.round).max().map(|x| x + 1).unwrap_or(0);
    let nthreads = all.iter().map(|r| r.thread).max().map(|x| x + 1).unwrap_or(0);
    for round in 0..rounds {
        let recs: Vec<&Rec> = all.iter().filter(|r| r.round == round).collect();
        if recs.is_empty() {
            continue;
        }
        let mut threads: Vec<Vec<&Rec>> = vec![Vec::new(); nthreads];
        for r in &recs {
            threads[r.thread].push(r);
        }
        for t in threads.iter_mut() {
            t.sort_by_key(|r| r.call);
        }
        let overlapping = recs.iter().filter(|a| recs.iter().any(|b| a.thread != b.thread && a.call < b.ret && b.call < a.ret)).count();
        *cov.entry("lin.operations_overlapping_another_thread".into()).or_insert(0) += overlapping as u64;
        let mut next_states: HashSet<State> = HashSet::new();
        let mut exhausted = false;
        let mut deepest: Option<(usize, Vec<u8>, State)> = None;
        let mut nodes = 0u64;
        for s in &states {
            let mut search = Search { threads: threads.clone(), visited: HashSet::new(), finals: HashSet::new(), nodes: 0, budget: 3_000_000, deepest: (0, Vec::new(), s.clone()) };
            let mut idx = vec![0u8; nthreads];
            search.dfs(&mut idx, s);
            nodes += search.nodes;
            if search.nodes >= search.budget {
                exhausted = true;
            }
            next_states.extend(search.finals.into_iter());
            if deepest.as_ref().map(|d| search.deepest.0 > d.0).unwrap_or(true) {
                deepest = Some(search.deepest);
            }
        }
        *cov.entry("lin.search_nodes".into()).or_insert(0) += nodes;
        *cov.entry("lin.rounds_checked".into()).or_insert(0) += 1;
        let e = cov.entry("max.lin.possible_states_after_a_round".into()).or_insert(0);
        *e = (*e).max(next_states.len() as u64);
        if next_states.is_empty() {
            if exhausted {
                return Err(Viol { prop: "inconclusive", sig: "search-budget".into(), msg: format!("round {round}: linearization search exceeded its budget"), detail: json!({}) });
            }
            let class = classify(&recs, all);
            // is a held cursor to blame?  Re-run the round without held scans.
            let mut without: Vec<Vec<&Rec>> = threads.iter().map(|t| t.iter().copied().filter(|r| !matches!(r.kind, Kind::Scan { hold: true, .. })).collect()).collect();
            let mut ok_without = false;
            if without.iter().map(|t| t.len()).sum::<usize>() < recs.len() {
                for s in &states {
                    let mut search = Search { threads: std::mem::take(&mut without), visited: HashSet::new(), finals: HashSet::new(), nodes: 0, budget: 3_000_000, deepest: (0, Vec::new(), s.clone()) };
                    let mut idx = vec![0u8; nthreads];
                    search.dfs(&mut idx, s);
                    if !search.finals.is_empty() {
                        ok_without = true;
                    }
                    without = search.threads;
                    if ok_without {
                        break;
                    }
                }
            }
            let (depth, idx, st) = deepest.unwrap_or((0, vec![0; nthreads], vec![None; nkeys]));
            let blocked: Vec<String> = threads.iter().enumerate().filter_map(|(t, ops)| ops.get(idx.get(t).copied().unwrap_or(0) as usize).map(|r| show_rec(r))).collect();
            let sig = if ok_without { format!("held-cursor:{class}") } else { class };
            return Err(Viol {
                prop: if ok_without { "C07|C06" } else { "C06" },
                sig,
                msg: format!("round {round}: no linearization of the {} recorded operations exists from any of the {} states possible before the round; the deepest prefix linearizes {depth} of them", recs.len(), states.len()),
                detail: json!({
                    "round": round,
                    "operations": recs.iter().map(|r| show_rec(r)).collect::<Vec<_>>(),
                    "state_after_deepest_prefix": st.iter().enumerate().map(|(k, v)| format!("k{k}={}", v.map(|v| format!("v{v}")).unwrap_or("none".into()))).collect::<Vec<_>>().join(" "),
                    "operations_that_cannot_come_next": blocked,
                    "history_without_held_cursors_linearizes": ok_without,
                }),
            });
        }
        states = next_states;
    }
    Ok(())
}

////////////////////////////////////////////// child ///////////////////////////////////////////////

pub fn run_child(args: &Args) {
    let seed = args.u64("seed", 1);
    let shard = args.u64("shard", 0);
    let run_no = args.u64("run", 0);
    let focus = args.str("focus", "C06");
    let scale = args.u64("scale", 1);
    let out = args.str("out", "");
    let root = PathBuf::from(args.str("root", "/dev/shm/e3-root"));
    quiet_panics();
    let plan = plan(seed, shard, run_no, &focus, scale);
    let mut plan = plan;
    if let Some(h) = args.opt("hot") {
        // directed runs: force the hot site and its sleep length
        if let Some(site) = SITES.iter().find(|s| **s == h) {
            plan.hot_site = site;
            plan.yield_pct = args.u64("pct", 30);
            plan.yield_max_us = args.u64("hot_us", 4000);
        }
    }
    let _ = std::fs::remove_dir_all(&root);
    let mut cov: BTreeMap<String, u64> = BTreeMap::new();
    let mut viols: Vec<Viol> = Vec::new();
    let started = Instant::now();
    YIELD_PCT.store(plan.yield_pct, Ordering::SeqCst);
    YIELD_MAX_US.store(plan.yield_max_us, Ordering::SeqCst);
    YIELD_HOT.store(site_hash(plan.hot_site), Ordering::SeqCst);
    SLOW_THREAD_MASK.store(plan.slow_mask, Ordering::SeqCst);
    lsmtk::verif::set_single_step(false);
    lsmtk::verif::set_yield(Some(yielder));
    skipfree::verif::set_yield(Some(yielder));
    if plan.registry {
        skipfree::verif::set_registry(true);
    }
    let kvs: &'static KeyValueStore = match KeyValueStore::open(plan.cfg.options(&root.to_string_lossy())) {
        Ok(k) => Box::leak(Box::new(k)),
        Err(e) => {
            finish_child(&out, &plan, &cov, &[Viol { prop: "C06", sig: "error:open".into(), msg: e.to_string(), detail: json!({}) }], false, 0, &[]);
            return;
        }
    };
    let bg_errors: Arc<Mutex<Vec<(String, String)>>> = Arc::new(Mutex::new(Vec::new()));
    {
        let bg = Arc::clone(&bg_errors);
        std::thread::spawn(move || {
            let r = guarded(|| kvs.memtable_thread());
            let msg = match r {
                Ok(Ok(())) => "returned".to_string(),
                Ok(Err(e)) => format!("error: {e}"),
                Err(p) => format!("panic: {p}"),
            };
            bg.lock().unwrap().push(("flush".into(), msg));
        });
    }
    for _ in 0..plan.compactors {
        let bg = Arc::clone(&bg_errors);
        std::thread::spawn(move || {
            let r = guarded(|| kvs.compaction_thread());
            let msg = match r {
                Ok(Ok(())) => "returned".to_string(),
                Ok(Err(e)) => format!("error: {e}"),
                Err(p) => format!("panic: {p}"),
            };
            bg.lock().unwrap().push(("compaction".into(), msg));
        });
    }
    let clients = plan.clients;
    let compactors = plan.compactors as u64;
    let sh = Arc::new(Shared { kvs, barrier: Barrier::new(clients), plan, done_ops: AtomicU64::new(0), gate: AtomicU64::new(0), finished_clients: AtomicUsize::new(0), abort: AtomicBool::new(false) });
    let mut handles = Vec::new();
    for t in 0..clients {
        let sh2 = Arc::clone(&sh);
        handles.push(std::thread::spawn(move || client(sh2, t)));
    }
    // monitor: progress and the park registry
    let mut deadlock: Option<String> = None;
    let mut hang = false;
    let mut stable = 0u32;
    let mut last = (0u64, [0u64; 3], 0u64, 0u64);
    let mut max_stall_parked = 0u64;
    let mut stall_samples = 0u64;
    let mut last_progress = Instant::now();
    let mut quiesced = false;
    let sample_ms = 250u64;
    let need_stable = 16; // 4 s
    loop {
        // fine-grained look at the stall counter between the coarse samples
        for _ in 0..sample_ms / 5 {
            std::thread::sleep(Duration::from_millis(5));
            if lsmtk::verif::PARKED[lsmtk::verif::STALL].load(Ordering::SeqCst) > 0 {
                stall_samples += 1;
            }
        }
        let parked = [
            lsmtk::verif::PARKED[lsmtk::verif::STALL].load(Ordering::SeqCst),
            lsmtk::verif::PARKED[lsmtk::verif::COMPACT].load(Ordering::SeqCst),
            lsmtk::verif::PARKED[lsmtk::verif::NEEDS_FLUSH].load(Ordering::SeqCst),
        ];
        let cur = (lsmtk::verif::GENERATION.load(Ordering::SeqCst), parked, sh.done_ops.load(Ordering::SeqCst), store_events());
        max_stall_parked = max_stall_parked.max(parked[0]);
        let clients_done = sh.finished_clients.load(Ordering::SeqCst) == clients;
        if cur.0 == last.0 && cur.1 == last.1 && cur.3 == last.3 {
            stable += 1;
        } else {
            stable = 0;
        }
        if cur.2 != last.2 || cur.0 != last.0 {
            last_progress = Instant::now();
        }
        last = cur;
        let bg_dead = !bg_errors.lock().unwrap().is_empty();
        if parked[0] >= 1 && parked[1] == compactors && stable >= need_stable {
            let tree = kvs.verif_tree();
            let shape: Vec<usize> = tree.verif_levels().iter().map(|l| l.len()).collect();
            deadlock = Some(format!(
                "the ingest is parked on `stall` ({} thread), all {} compaction threads are parked on `compact`, and the park registry did not change for {} ms; tree shape {:?}; should_stall = {}; client operations completed: {}",
                parked[0], compactors, stable as u64 * sample_ms, shape, tree.verif_should_stall(), cur.2
            ));
            break;
        }
        if clients_done && parked[2] >= 1 && parked[1] == compactors && parked[0] == 0 && stable >= 2 {
            quiesced = true;
            break;
        }
        if clients_done && bg_dead {
            break;
        }
        if last_progress.elapsed() > Duration::from_secs(45) {
            hang = true;
            break;
        }
        if started.elapsed() > Duration::from_secs(150) {
            hang = !clients_done;
            break;
        }
    }
    cov.insert("max.c20.threads_parked_on_stall".into(), max_stall_parked);
    cov.insert("c20.samples_with_ingest_stalled".into(), stall_samples);
    let mut all: Vec<Rec> = Vec::new();
    let clients_done = sh.finished_clients.load(Ordering::SeqCst) == clients;
    if clients_done {
        for h in handles {
            if let Ok(recs) = h.join() {
                all.extend(recs);
            }
        }
    }
    for (who, msg) in bg_errors.lock().unwrap().iter() {
        let sig = if let Some(rest) = msg.strip_prefix("panic: ") {
            format!("background:{who}:panic:{}", panic_site(rest))
        } else if let Some(rest) = msg.strip_prefix("error: ") {
            format!("background:{who}:error:{}", crate::e1::err_code(rest))
        } else {
            format!("background:{who}:returned")
        };
        viols.push(Viol { prop: "C06|C20|C04", sig, msg: format!("the {who} thread stopped: {msg}"), detail: json!({}) });
    }
    if let Some(d) = deadlock {
        // verified explanation of the known finding: nothing is selectable because the level-0
        // compaction needs more inputs than max_compaction_files allows
        let levels = kvs.verif_tree().verif_levels();
        let needed = crate::e1::l0_compaction_inputs(&levels);
        let known = needed > sh.plan.cfg.max_files && kvs.verif_tree().verif_should_stall();
        let sig = if known { "stall:l0-compaction-exceeds-max-compaction-files" } else { "stall:all-store-threads-parked" };
        viols.push(Viol { prop: "C20", sig: sig.into(), msg: format!("{d}; the level-0 compaction needs {needed} inputs, max_compaction_files = {}", sh.plan.cfg.max_files), detail: json!({"config": sh.plan.cfg.json()}) });
    }
    let mut inconclusive: Vec<String> = Vec::new();
    if hang {
        inconclusive.push(format!("no progress for 45 s without the deadlock predicate holding (clients finished: {}); parked {:?}", clients_done, last.1));
    }
    cov.insert("ops.recorded".into(), all.len() as u64);
    cov.insert("yields.taken".into(), YIELDS_TAKEN.load(Ordering::SeqCst));
    cov.insert("store.flushes".into(), lsmtk::verif::FLUSHES_DONE.load(Ordering::SeqCst));
    cov.insert("store.compactions".into(), lsmtk::verif::COMPACTIONS_DONE.load(Ordering::SeqCst));
    for r in &all {
        let k = match &r.kind {
            Kind::Put(..) => "ops.put",
            Kind::Del(..) => "ops.del",
            Kind::Batch(..) => "ops.batch",
            Kind::Get(..) => "ops.get",
            Kind::Scan { hold: false, .. } => "ops.scan",
            Kind::Scan { hold: true, .. } => "ops.held_cursor",
        };
        *cov.entry(k.into()).or_insert(0) += 1;
        if r.events_while_held > 0 {
            *cov.entry("c07.cursors_held_across_store_events".into()).or_insert(0) += 1;
            *cov.entry("c07.store_events_under_held_cursors".into()).or_insert(0) += r.events_while_held;
        }
    }
    let writes = all.iter().filter(|r| r.kind.is_write()).count();
    if clients_done && viols.is_empty() {
        match check_history(&sh.plan, &all, &mut cov) {
            Ok(()) => {}
            Err(v) if v.prop == "inconclusive" => inconclusive.push(v.msg),
            Err(v) => viols.push(v),
        }
    }
    // the ledger at quiescence (C04 under concurrency)
    if quiesced && viols.is_empty() {
        let mut h = History::attach(&root, sh.plan.cfg.clone(), sh.plan.keys.clone());
        let rewriting: usize = crate::e1::fragment_paths(&root).iter().map(|(_, p)| crate::e1::read_fragment(p).map(|es| es.iter().skip(1).filter(|e| !e.removed.is_empty()).count()).unwrap_or(0)).sum();
        cov.insert("store.rewriting_compactions_on_disk".into(), rewriting as u64);
        match h.check_ledger() {
            Ok(()) => {
                cov.insert("c04.ledgers_checked_at_quiescence".into(), 1);
                for (k, n) in &h.cov {
                    if k.starts_with("c04.") {
                        *cov.entry(k.clone()).or_insert(0) += n;
                    }
                }
            }
            Err(vi) => viols.push(Viol { prop: "C04", sig: format!("concurrent:{}", vi.sig), msg: vi.msg, detail: json!({}) }),
        }
    }
    let nontrivial = clients_done && writes >= 10 && cov.get("lin.operations_overlapping_another_thread").copied().unwrap_or(0) >= 5 && cov.get("store.flushes").copied().unwrap_or(0) >= 1;
    let mut hh = SHash::default();
    hh.u64(seed).u64(shard).u64(run_no);
    for r in all.iter().take(200) {
        hh.u64(r.call).u64(r.ret);
    }
    let sample: Vec<String> = all.iter().filter(|r| r.round == 1).take(12).map(show_rec).collect();
    finish_child_full(&out, &sh.plan, &cov, &viols, nontrivial, hh.get(), &inconclusive, &sample);
    if std::env::var("VH_KEEP").is_ok() && !viols.is_empty() {
        eprintln!("kept {}", root.display());
        std::process::exit(0);
    }
    let _ = std::fs::remove_dir_all(&root);
    std::process::exit(0);
}

fn finish_child(out: &str, plan: &Plan, cov: &BTreeMap<String, u64>, viols: &[Viol], nontrivial: bool, hash: u64, inconclusive: &[String]) {
    finish_child_full(out, plan, cov, viols, nontrivial, hash, inconclusive, &[]);
    std::process::exit(0);
}

#[allow(clippy::too_many_arguments)]
fn finish_child_full(out: &str, plan: &Plan, cov: &BTreeMap<String, u64>, viols: &[Viol], nontrivial: bool, hash: u64, inconclusive: &[String], sample: &[String]) {
    let j = json!({
        "cov": cov,
        "violations": viols.iter().map(|v| json!({"prop": v.prop, "sig": v.sig, "msg": v.msg, "detail": v.detail})).collect::<Vec<_>>(),
        "nontrivial": nontrivial,
        "hash": hash,
        "inconclusive": inconclusive,
        "shape": {"clients": plan.clients, "compaction_threads": plan.compactors, "keys": plan.keys.len(), "rounds": plan.rounds,
                  "yield_pct": plan.yield_pct, "yield_max_us": plan.yield_max_us, "hot_site": plan.hot_site, "registry": plan.registry, "config": plan.cfg.json()},
        "sample_round": sample,
    });
    if out.is_empty() {
        println!("{j}");
    } else {
        let _ = std::fs::write(out, j.to_string());
    }
}

////////////////////////////////////////////// parent //////////////////////////////////////////////

pub fn run(args: &Args) {
    let focus = args.str("focus", "C06");
    let mut rep = Report::new(&format!("e3:{focus}"), args);
    rep.max_samples = 3;
    let runs = args.u64("runs", 6);
    let scale = args.u64("scale", 1);
    let (seed, shard) = (rep.seed, rep.shard);
    let scratch = Scratch::new("e3");
    let only = args.opt("run").map(|c| c.parse::<u64>().unwrap());
    let mut others: BTreeMap<String, u64> = BTreeMap::new();
    for run_no in 0..runs {
        if only.is_some() && only != Some(run_no) {
            continue;
        }
        let out = scratch.path.join(format!("run{run_no}.json"));
        // real fsync latency stretches the store's commit sections: every other run of the ledger
        // focus lives on the disk instead of tmpfs
        let on_disk = args.u64("disk", if focus == "C04" { 1 } else { 0 }) == 1 && run_no % 2 == 1;
        let root = if on_disk {
            let base = PathBuf::from(std::env::var("VH_VERIF").unwrap_or_else(|_| "/verif".to_string())).join("out");
            let _ = std::fs::create_dir_all(&base);
            base.join(format!("e3disk-{}-{shard}-{run_no}", std::process::id()))
        } else {
            scratch.path.join(format!("run{run_no}-root"))
        };
        if on_disk {
            rep.count("runs.on_disk", 1);
        }
        let _ = std::fs::remove_file(&out);
        let exe = std::env::current_exe().unwrap();
        let mut child = match Command::new(exe)
            .arg("e3child")
            .arg(format!("seed={seed}"))
            .arg(format!("shard={shard}"))
            .arg(format!("run={run_no}"))
            .arg(format!("focus={focus}"))
            .arg(format!("scale={scale}"))
            .arg(format!("root={}", root.display()))
            .arg(format!("out={}", out.display()))
            .stdout(std::process::Stdio::null())
            .stderr(std::process::Stdio::piped())
            .spawn()
        {
            Ok(c) => c,
            Err(e) => {
                rep.inconclusive.push(format!("cannot spawn child: {e}"));
                continue;
            }
        };
        let t0 = Instant::now();
        let status = loop {
            match child.try_wait() {
                Ok(Some(st)) => break Some(st),
                Ok(None) => {
                    if t0.elapsed() > Duration::from_secs(240) {
                        let _ = child.kill();
                        let _ = child.wait();
                        break None;
                    }
                    std::thread::sleep(Duration::from_millis(20));
                }
                Err(_) => break None,
            }
        };
        rep.evaluations += 1;
        let replay = format!("vh e3 focus={focus} seed={seed} shard={shard} runs={} scale={scale} run={run_no}", run_no + 1);
        let text = std::fs::read_to_string(&out).unwrap_or_default();
        let _ = std::fs::remove_dir_all(&root);
        if text.is_empty() {
            let mut err = String::new();
            if let Some(mut e) = child.stderr.take() {
                use std::io::Read;
                let _ = e.read_to_string(&mut err);
            }
            let sig = death_signature(&err);
            let tail = if err.len() > 2500 { err[..2500].to_string() } else { err };
            match status {
                None => rep.inconclusive.push(format!("run {run_no}: child exceeded its wall-clock watchdog")),
                Some(st) => {
                    // died without a report: abort / signal inside the store
                    rep.violation(&format!("e3:{focus}"), &format!("child-died:{sig}"), json!({"run": run_no, "status": format!("{st:?}"), "stderr": tail, "replay": replay}));
                }
            }
            continue;
        }
        let j: serde_json::Value = match serde_json::from_str(&text) {
            Ok(j) => j,
            Err(e) => {
                rep.inconclusive.push(format!("run {run_no}: unreadable report: {e}"));
                continue;
            }
        };
        if let Some(cov) = j["cov"].as_object() {
            for (k, n) in cov {
                let n = n.as_u64().unwrap_or(0);
                if k.starts_with("max.") {
                    rep.max(k, n);
                } else {
                    rep.count(k, n);
                }
            }
        }
        for m in j["inconclusive"].as_array().cloned().unwrap_or_default() {
            rep.count("runs.inconclusive", 1);
            rep.notes.insert(format!("inconclusive_run_{run_no}"), m);
        }
        if j["nontrivial"].as_bool() == Some(true) {
            rep.nontrivial.insert(j["hash"].as_u64().unwrap_or(run_no));
            if rep.want_sample() {
                rep.sample(json!({"run": run_no, "shape": j["shape"], "one_round_of_the_recorded_history": j["sample_round"]}));
            }
        }
        for v in j["violations"].as_array().cloned().unwrap_or_default() {
            let prop = v["prop"].as_str().unwrap_or("");
            let sig = v["sig"].as_str().unwrap_or("").to_string();
            if prop.split('|').any(|p| p == focus) {
                rep.violation(&format!("e3:{focus}"), &sig, json!({"run": run_no, "message": v["msg"], "detail": v["detail"], "shape": j["shape"], "replay": replay}));
            } else {
                *others.entry(format!("{prop}:{sig}")).or_insert(0) += 1;
            }
        }
    }
    rep.notes.insert("violations_of_other_properties_observed".into(), json!(others));
    rep.finish(args);
}
