//! Engine E2: crash / fault sweeps of a deterministic child history under the system-call shim.
//!
//! The child is this same binary run with LD_PRELOAD=vshim.so; it reports invoke/ack of every
//! operation to an acknowledgement file outside the watched root.  The parent kills it before its
//! n-th watched call (VSHIM_CRASH_AT), optionally applies persistence model (b) (bytes after a
//! file's last successful sync are lost) and hands the directory image to a recovery oracle.

use std::collections::HashMap;
use std::io::Write;
use std::os::unix::fs::MetadataExt;
use std::path::{Path, PathBuf};
use std::process::Command;

use crate::util::*;

pub fn shim_path() -> String {
    let base = std::env::var("VH_VERIF").unwrap_or_else(|_| "/verif".to_string());
    format!("{base}/shim/vshim.so")
}

////////////////////////////////////////////// child side //////////////////////////////////////////

pub struct AckLog {
    file: Option<std::fs::File>,
}

impl AckLog {
    pub fn create(path: &str) -> Self {
        if path.is_empty() {
            return Self { file: None };
        }
        let file = std::fs::OpenOptions::new().create(true).append(true).open(path).ok();
        Self { file }
    }

    fn line(&mut self, s: String) {
        if let Some(f) = &mut self.file {
            let _ = f.write_all(s.as_bytes());
        }
    }

    pub fn invoke(&mut self, i: u64) {
        self.line(format!("invoke {i}\n"));
    }
    pub fn ack(&mut self, i: u64) {
        self.line(format!("ack {i}\n"));
    }
    pub fn error(&mut self, i: u64, msg: &str) {
        self.line(format!("error {i} {}\n", msg.replace('\n', " ")));
    }
    pub fn note(&mut self, msg: &str) {
        self.line(format!("note {}\n", msg.replace('\n', " ")));
    }
}

///////////////////////////////////////////// parent side //////////////////////////////////////////

#[derive(Clone, Debug, Default)]
pub struct Acks {
    pub invoked: Vec<u64>,
    pub acked: Vec<u64>,
    pub errors: Vec<(u64, String)>,
    pub notes: Vec<String>,
}

impl Acks {
    pub fn parse(path: &Path) -> Self {
        let mut a = Acks::default();
        if let Ok(s) = std::fs::read_to_string(path) {
            for l in s.lines() {
                let mut it = l.splitn(3, ' ');
                match (it.next(), it.next()) {
                    (Some("invoke"), Some(i)) => a.invoked.push(i.parse().unwrap_or(u64::MAX)),
                    (Some("ack"), Some(i)) => a.acked.push(i.parse().unwrap_or(u64::MAX)),
                    (Some("error"), Some(i)) => a.errors.push((i.parse().unwrap_or(u64::MAX), it.next().unwrap_or("").to_string())),
                    (Some("note"), rest) => a.notes.push(format!("{} {}", rest.unwrap_or(""), it.next().unwrap_or(""))),
                    _ => {}
                }
            }
        }
        a
    }

    pub fn last_ack(&self) -> Option<u64> {
        self.acked.last().copied()
    }

    /// The operation that was invoked but neither acknowledged nor failed.
    pub fn in_flight(&self) -> Option<u64> {
        let last = self.invoked.last().copied()?;
        if self.acked.contains(&last) || self.errors.iter().any(|(i, _)| *i == last) {
            None
        } else {
            Some(last)
        }
    }
}

pub struct Sweep {
    pub dir: PathBuf,
    pub tag: String,
    pub child_args: Vec<String>,
    pub extra_env: Vec<(String, String)>,
    /// false: the child runs over whatever the root already holds
    pub fresh: bool,
}

pub struct CrashRun {
    pub root: PathBuf,
    pub acks: Acks,
    pub bytes_dropped: u64,
    pub exit_code: i32,
    pub stderr_tail: String,
}

impl CrashRun {
    pub fn cleanup(self) {
        let _ = std::fs::remove_dir_all(&self.root);
    }
}

pub fn walk_files(root: &Path, out: &mut Vec<PathBuf>) {
    if let Ok(rd) = std::fs::read_dir(root) {
        for e in rd.flatten() {
            let p = e.path();
            match e.file_type() {
                Ok(t) if t.is_dir() => walk_files(&p, out),
                Ok(t) if t.is_file() => out.push(p),
                _ => {}
            }
        }
    }
}

impl Sweep {
    pub fn new(scratch: &Scratch, tag: &str, child_args: Vec<String>) -> Self {
        Self {
            dir: scratch.path.clone(),
            tag: tag.to_string(),
            child_args,
            extra_env: Vec::new(),
            fresh: true,
        }
    }

    pub fn root(&self) -> PathBuf {
        self.dir.join(format!("{}-root", self.tag))
    }

    fn side(&self, what: &str) -> PathBuf {
        self.dir.join(format!("{}-{what}", self.tag))
    }

    fn run_child(&self, env: &[(&str, String)], fresh_root: bool) -> Result<(i32, String), String> {
        let root = self.root();
        if fresh_root {
            let _ = std::fs::remove_dir_all(&root);
        }
        let acks = self.side("acks");
        let _ = std::fs::remove_file(&acks);
        let exe = std::env::current_exe().map_err(|e| e.to_string())?;
        let mut cmd = Command::new(exe);
        cmd.args(&self.child_args)
            .arg(format!("root={}", root.display()))
            .arg(format!("acks={}", acks.display()))
            .env("LD_PRELOAD", shim_path())
            .env("VSHIM_ROOT", &root);
        for (k, v) in env {
            cmd.env(k, v);
        }
        for (k, v) in &self.extra_env {
            cmd.env(k, v);
        }
        let out = cmd.output().map_err(|e| format!("cannot spawn child: {e}"))?;
        let code = out.status.code().unwrap_or(-1);
        let mut tail = String::from_utf8_lossy(&out.stderr).to_string();
        if tail.len() > 600 {
            tail = tail[tail.len() - 600..].to_string();
        }
        Ok((code, tail))
    }

    /// Run the history to completion once and return the number of watched calls it issues.
    pub fn count_calls(&self) -> Result<u64, String> {
        let count = self.side("count");
        let _ = std::fs::remove_file(&count);
        let (code, tail) = self.run_child(&[("VSHIM_COUNT", count.display().to_string())], self.fresh)?;
        if code != 0 {
            return Err(format!("fault-free child run exited {code}: {tail}"));
        }
        let n = std::fs::read_to_string(&count)
            .map_err(|e| format!("shim wrote no call count ({e}): is the shim loaded?"))?
            .trim()
            .parse::<u64>()
            .map_err(|e| e.to_string())?;
        let _ = std::fs::remove_file(&count);
        let _ = std::fs::remove_dir_all(self.root());
        if n == 0 {
            return Err("the shim saw no watched call".into());
        }
        Ok(n)
    }

    /// Kill the child before its n-th watched call.
    pub fn crash_at(&self, n: u64, model_b: bool) -> Result<CrashRun, String> {
        let synced = self.side("synced");
        let _ = std::fs::remove_file(&synced);
        let (code, tail) = self.run_child(
            &[("VSHIM_CRASH_AT", n.to_string()), ("VSHIM_SYNCED", synced.display().to_string())],
            self.fresh,
        )?;
        if code != 77 {
            return Err(format!("child did not crash at call {n} (exit {code}): {tail}"));
        }
        let acks = Acks::parse(&self.side("acks"));
        let mut bytes_dropped = 0u64;
        if model_b {
            let mut table: HashMap<u64, u64> = HashMap::new();
            if let Ok(s) = std::fs::read_to_string(&synced) {
                for l in s.lines() {
                    let mut it = l.split(' ');
                    if let (Some(i), Some(len)) = (it.next(), it.next()) {
                        if let (Ok(i), Ok(len)) = (i.parse::<u64>(), len.parse::<u64>()) {
                            table.insert(i, len);
                        }
                    }
                }
            }
            let mut files = Vec::new();
            walk_files(&self.root(), &mut files);
            let mut done: std::collections::HashSet<u64> = std::collections::HashSet::new();
            for f in files {
                if let Ok(md) = std::fs::metadata(&f) {
                    if let Some(len) = table.get(&md.ino()) {
                        if md.len() > *len && done.insert(md.ino()) {
                            bytes_dropped += md.len() - *len;
                            let fh = std::fs::OpenOptions::new().write(true).open(&f).map_err(|e| e.to_string())?;
                            fh.set_len(*len).map_err(|e| e.to_string())?;
                        }
                    }
                }
            }
        }
        let _ = std::fs::remove_file(&synced);
        Ok(CrashRun {
            root: self.root(),
            acks,
            bytes_dropped,
            exit_code: code,
            stderr_tail: tail,
        })
    }

    /// Make the n-th watched call fail once with `errno`; the child runs on.
    pub fn fail_at(&self, n: u64, errno: i32) -> Result<CrashRun, String> {
        let (code, tail) = self.run_child(&[("VSHIM_FAIL_AT", format!("{n},{errno}"))], self.fresh)?;
        let acks = Acks::parse(&self.side("acks"));
        Ok(CrashRun {
            root: self.root(),
            acks,
            bytes_dropped: 0,
            exit_code: code,
            stderr_tail: tail,
        })
    }
}

/// Crash points to sweep: all of them when few, otherwise an even spread plus random extras.
pub fn pick_points(total: u64, max_points: usize, seed: u64) -> Vec<u64> {
    if total as usize <= max_points {
        return (1..=total).collect();
    }
    let mut rng = Rng::new(seed ^ 0xC4A5);
    let mut set = std::collections::BTreeSet::new();
    let even = max_points * 2 / 3;
    for i in 0..even {
        set.insert(1 + (i as u64 * total) / even as u64);
    }
    while set.len() < max_points {
        set.insert(1 + rng.below(total));
    }
    set.into_iter().collect()
}
