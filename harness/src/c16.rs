//! C16 — tuple-key encodings sort byte-wise exactly as their tuples, and decode back.
//!
//! Oracle: element-wise comparison of the source tuples (reversed for descending elements) vs.
//! `Ord` of the encoded bytes; prefix-extension ordering; decode(enc(t)) == t; decoders on
//! arbitrary bytes and on mutated encodings must return Ok/Err, never panic.  Both formats:
//! `tuple_key` (field-numbered, with directions, incl. a derived TypedTupleKey) and `tuple_key2`.

use std::cmp::Ordering;

use prototk::FieldNumber;
use serde_json::json;
use tuple_key::{Direction, TupleKey, TupleKeyParser};
use tuple_key_derive::TypedTupleKey;

use crate::util::*;

#[derive(Clone, Debug, PartialEq, Eq, PartialOrd, Ord)]
pub enum Val {
    Unit,
    U32(u32),
    U64(u64),
    I32(i32),
    I64(i64),
    Str(String),
    Bytes(Vec<u8>),
}

impl Val {
    fn show(&self) -> String {
        match self {
            Val::Unit => "()".into(),
            Val::U32(x) => format!("{x}u32"),
            Val::U64(x) => format!("{x}u64"),
            Val::I32(x) => format!("{x}i32"),
            Val::I64(x) => format!("{x}i64"),
            Val::Str(s) => format!("str:{}", hex(s.as_bytes())),
            Val::Bytes(b) => format!("bytes:{}", hex(b)),
        }
    }
    fn ty(&self) -> u8 {
        match self {
            Val::Unit => 0,
            Val::U32(_) => 1,
            Val::U64(_) => 2,
            Val::I32(_) => 3,
            Val::I64(_) => 4,
            Val::Str(_) => 5,
            Val::Bytes(_) => 6,
        }
    }
}

fn boundary_u64(rng: &mut Rng) -> u64 {
    match rng.below(8) {
        0 => *rng.pick(&[0u64, 1, 2, u64::MAX, u64::MAX - 1, 1 << 63, (1 << 63) - 1]),
        1 | 2 => {
            // power-of-two boundaries
            let k = rng.below(64);
            let base = 1u64 << k;
            match rng.below(3) {
                0 => base,
                1 => base.wrapping_sub(1),
                _ => base.wrapping_add(1),
            }
        }
        3 | 4 => {
            // byte-length boundaries (256^k) and 7-bit group boundaries (128^k)
            let k = rng.below(9);
            let base = if rng.chance(1, 2) {
                if k >= 8 { u64::MAX } else { 1u64 << (8 * k) }
            } else {
                1u64 << (7 * k)
            };
            match rng.below(3) {
                0 => base,
                1 => base.wrapping_sub(1),
                _ => base.wrapping_add(1),
            }
        }
        _ => rng.u64() >> rng.below(64),
    }
}

fn boundary_i64(rng: &mut Rng) -> i64 {
    let m = boundary_u64(rng);
    match rng.below(6) {
        0 => *rng.pick(&[0i64, -1, 1, i64::MIN, i64::MAX, i64::MIN + 1, i64::MAX - 1]),
        1 | 2 => m as i64,
        3 | 4 => (m as i64).wrapping_neg(),
        _ => !(m as i64),
    }
}

fn boundary_string(rng: &mut Rng) -> String {
    let chars = [
        '\0', '\u{1}', 'a', 'b', 'z', '\u{7f}', '\u{80}', '\u{ff}', '\u{7ff}', '\u{800}', '\u{ffff}',
        '\u{10000}', '\u{10ffff}',
    ];
    let n = match rng.below(6) {
        0 => 0,
        1 => 1,
        2 => 2,
        _ => rng.usize(9),
    };
    (0..n).map(|_| *rng.pick(&chars)).collect()
}

fn boundary_bytes(rng: &mut Rng) -> Vec<u8> {
    let alphabet = [0x00u8, 0x00, 0x01, 0x61, 0x7f, 0x80, 0xfe, 0xff, 0xff];
    let n = match rng.below(6) {
        0 => 0,
        1 => 1,
        2 => 2,
        _ => rng.usize(9),
    };
    (0..n).map(|_| *rng.pick(&alphabet)).collect()
}

fn gen_val(rng: &mut Rng, ty: u8) -> Val {
    match ty {
        0 => Val::Unit,
        1 => Val::U32(boundary_u64(rng) as u32),
        2 => Val::U64(boundary_u64(rng)),
        3 => Val::I32(boundary_i64(rng) as i32),
        4 => Val::I64(boundary_i64(rng)),
        5 => Val::Str(boundary_string(rng)),
        _ => Val::Bytes(boundary_bytes(rng)),
    }
}

/// A value that agrees with `v` up to a boundary: neighbour, sign flip, prefix, extension.
fn neighbour(rng: &mut Rng, v: &Val) -> Val {
    match v {
        Val::Unit => Val::Unit,
        Val::U32(x) => Val::U32(match rng.below(4) {
            0 => x.wrapping_add(1),
            1 => x.wrapping_sub(1),
            2 => x ^ (1 << rng.below(32)),
            _ => boundary_u64(rng) as u32,
        }),
        Val::U64(x) => Val::U64(match rng.below(4) {
            0 => x.wrapping_add(1),
            1 => x.wrapping_sub(1),
            2 => x ^ (1 << rng.below(64)),
            _ => boundary_u64(rng),
        }),
        Val::I32(x) => Val::I32(match rng.below(5) {
            0 => x.wrapping_add(1),
            1 => x.wrapping_sub(1),
            2 => x.wrapping_neg(),
            3 => x ^ (1 << rng.below(32)),
            _ => boundary_i64(rng) as i32,
        }),
        Val::I64(x) => Val::I64(match rng.below(5) {
            0 => x.wrapping_add(1),
            1 => x.wrapping_sub(1),
            2 => x.wrapping_neg(),
            3 => x ^ (1 << rng.below(64)),
            _ => boundary_i64(rng),
        }),
        Val::Str(s) => {
            let mut cs: Vec<char> = s.chars().collect();
            match rng.below(5) {
                0 => {
                    cs.pop();
                }
                1 => cs.push(*rng.pick(&['\0', '\u{1}', 'a', '\u{10ffff}'])),
                2 => {
                    if let Some(l) = cs.last_mut() {
                        *l = *rng.pick(&['\0', '\u{1}', 'a', 'b', '\u{7f}', '\u{80}', '\u{10ffff}']);
                    }
                }
                3 => return Val::Str(boundary_string(rng)),
                _ => {}
            }
            Val::Str(cs.into_iter().collect())
        }
        Val::Bytes(b) => {
            let mut b = b.clone();
            match rng.below(5) {
                0 => {
                    b.pop();
                }
                1 => b.push(*rng.pick(&[0x00u8, 0x01, 0xff])),
                2 => {
                    if let Some(l) = b.last_mut() {
                        *l = *rng.pick(&[0x00u8, 0x01, 0x7f, 0x80, 0xfe, 0xff]);
                    }
                }
                3 => return Val::Bytes(boundary_bytes(rng)),
                _ => {}
            }
            Val::Bytes(b)
        }
    }
}

///////////////////////////////////////////// format 1 /////////////////////////////////////////////

#[derive(Clone, Debug)]
struct Slot {
    field: u32,
    ty: u8,
    dir: Direction,
}

fn enc1(schema: &[Slot], vals: &[Val]) -> TupleKey {
    let mut tk = TupleKey::default();
    for (s, v) in schema.iter().zip(vals.iter()) {
        let f = FieldNumber::must(s.field);
        match v {
            Val::Unit => tk.extend(f),
            Val::U32(x) => tk.extend_with_key(f, *x, s.dir),
            Val::U64(x) => tk.extend_with_key(f, *x, s.dir),
            Val::I32(x) => tk.extend_with_key(f, *x, s.dir),
            Val::I64(x) => tk.extend_with_key(f, *x, s.dir),
            Val::Str(x) => tk.extend_with_key(f, x.clone(), s.dir),
            Val::Bytes(_) => unreachable!(),
        }
    }
    tk
}

fn dec1(schema: &[Slot], tk: &TupleKey) -> Result<Vec<Val>, String> {
    let mut p = TupleKeyParser::new(tk);
    let mut out = Vec::new();
    for s in schema {
        let f = FieldNumber::must(s.field);
        let v = match s.ty {
            0 => {
                // extend() always writes units in the forward direction
                p.parse_next(f, Direction::Forward).map_err(|e| e.to_string())?;
                Val::Unit
            }
            1 => Val::U32(p.parse_next_with_key(f, s.dir).map_err(|e| e.to_string())?),
            2 => Val::U64(p.parse_next_with_key(f, s.dir).map_err(|e| e.to_string())?),
            3 => Val::I32(p.parse_next_with_key(f, s.dir).map_err(|e| e.to_string())?),
            4 => Val::I64(p.parse_next_with_key(f, s.dir).map_err(|e| e.to_string())?),
            _ => Val::Str(p.parse_next_with_key(f, s.dir).map_err(|e| e.to_string())?),
        };
        out.push(v);
    }
    match p.peek_next() {
        Ok(None) => Ok(out),
        other => Err(format!("trailing elements: {other:?}")),
    }
}

fn cmp1(schema: &[Slot], a: &[Val], b: &[Val]) -> Ordering {
    for ((s, x), y) in schema.iter().zip(a.iter()).zip(b.iter()) {
        let o = x.cmp(y);
        let o = if s.dir == Direction::Reverse { o.reverse() } else { o };
        if o != Ordering::Equal {
            return o;
        }
    }
    Ordering::Equal
}

fn gen_schema1(rng: &mut Rng, n: usize) -> Vec<Slot> {
    (0..n)
        .map(|_| Slot {
            field: match rng.below(6) {
                0 => 1,
                1 => 15,
                2 => 16,
                3 => 2047,
                4 => 2048,
                _ => 1 + rng.below(18999) as u32,
            },
            ty: rng.below(6) as u8,
            dir: if rng.chance(1, 2) { Direction::Forward } else { Direction::Reverse },
        })
        .collect()
}

#[derive(Clone, Debug, Eq, PartialEq, TypedTupleKey)]
struct DerivedKey {
    #[tuple_key(1)]
    table: (),
    #[tuple_key(2)]
    a: u64,
    #[tuple_key(3)]
    #[reverse]
    b: i64,
    #[tuple_key(4)]
    c: String,
    #[tuple_key(5)]
    #[reverse]
    d: String,
    #[tuple_key(6)]
    #[reverse]
    e: u32,
    #[tuple_key(7)]
    f: i32,
}

fn derived_from(vals: &[Val]) -> DerivedKey {
    let g = |i: usize| vals[i].clone();
    DerivedKey {
        table: (),
        a: if let Val::U64(x) = g(0) { x } else { 0 },
        b: if let Val::I64(x) = g(1) { x } else { 0 },
        c: if let Val::Str(x) = g(2) { x } else { String::new() },
        d: if let Val::Str(x) = g(3) { x } else { String::new() },
        e: if let Val::U32(x) = g(4) { x } else { 0 },
        f: if let Val::I32(x) = g(5) { x } else { 0 },
    }
}

fn derived_cmp(x: &DerivedKey, y: &DerivedKey) -> Ordering {
    x.a.cmp(&y.a)
        .then(y.b.cmp(&x.b))
        .then(x.c.cmp(&y.c))
        .then(y.d.cmp(&x.d))
        .then(y.e.cmp(&x.e))
        .then(x.f.cmp(&y.f))
}

///////////////////////////////////////////// format 2 /////////////////////////////////////////////

/// type codes for format 2: 0 unit, 1 u32, 2 u64, 3 i32, 4 i64, 5 string, 6 bytes,
/// 7 u8, 8 u16, 9 i8, 10 i16 (the narrow ones reuse U64/I64 values in range)
fn enc2(vals: &[Val]) -> tuple_key2::TupleKey {
    let mut b = tuple_key2::TupleKey::builder();
    for v in vals {
        b = match v {
            Val::Unit => b.unit(),
            Val::U32(x) => b.u32(*x),
            Val::U64(x) => b.u64(*x),
            Val::I32(x) => b.i32(*x),
            Val::I64(x) => b.i64(*x),
            Val::Str(x) => b.string(x),
            Val::Bytes(x) => b.bytes(x),
        };
    }
    b.build()
}

fn dec2(types: &[u8], key: &tuple_key2::TupleKey) -> Result<Vec<Val>, String> {
    let mut p = key.parser();
    let mut out = Vec::new();
    for t in types {
        let v = match t {
            0 => {
                p.unit().map_err(|e| e.to_string())?;
                Val::Unit
            }
            1 => Val::U32(p.u32().map_err(|e| e.to_string())?),
            2 => Val::U64(p.u64().map_err(|e| e.to_string())?),
            3 => Val::I32(p.i32().map_err(|e| e.to_string())?),
            4 => Val::I64(p.i64().map_err(|e| e.to_string())?),
            5 => Val::Str(p.string().map_err(|e| e.to_string())?),
            _ => Val::Bytes(p.bytes().map_err(|e| e.to_string())?),
        };
        out.push(v);
    }
    p.finish().map_err(|e| e.to_string())?;
    Ok(out)
}

////////////////////////////////////////////// cases ///////////////////////////////////////////////

/// Verified explanation of the one known ordering defect of the field-numbered format: a
/// descending string that is a proper prefix of the other, where the longer one continues with
/// zero bits for the remainder of the shorter one's final 7-bit chunk (so the inverted data bits
/// tie and the continuation bit — which is not inverted — decides the wrong way).
fn desc_prefix_defect_applies(x: &Val, y: &Val) -> bool {
    let (Val::Str(x), Val::Str(y)) = (x, y) else {
        return false;
    };
    let (p, q) = if x.len() < y.len() { (x.as_bytes(), y.as_bytes()) } else { (y.as_bytes(), x.as_bytes()) };
    if p.len() == q.len() || !q.starts_with(p) {
        return false;
    }
    let pad = if p.is_empty() { 7 } else { (7 - (8 * p.len()) % 7) % 7 };
    // the next `pad` bits of q after the prefix must all be zero
    let rest = &q[p.len()..];
    for i in 0..pad {
        let byte = rest.get(i / 8).copied().unwrap_or(0);
        if byte & (0x80 >> (i % 8)) != 0 {
            return false;
        }
    }
    true
}

fn fail(sig: &str, msg: String) -> Result<(), (String, String)> {
    Err((sig.to_string(), msg))
}

fn show_vals(v: &[Val]) -> Vec<String> {
    v.iter().map(|x| x.show()).collect()
}

fn pair_case(rng: &mut Rng, rep: &mut Report, fmt2: bool) -> (u64, bool, serde_json::Value, Result<(), (String, String)>) {
    let n = 1 + rng.usize(4);
    let schema: Vec<Slot> = if fmt2 {
        (0..n)
            .map(|_| Slot { field: 1, ty: rng.below(7) as u8, dir: Direction::Forward })
            .collect()
    } else {
        gen_schema1(rng, n)
    };
    let a: Vec<Val> = schema.iter().map(|s| gen_val(rng, s.ty)).collect();
    // b agrees with a on a prefix and differs at a boundary
    let keep = rng.usize(n + 1);
    let mut b = a.clone();
    for i in keep..n {
        b[i] = if i == keep { neighbour(rng, &a[i]) } else { gen_val(rng, schema[i].ty) };
    }
    // extension x
    let xn = 1 + rng.usize(2);
    let xschema: Vec<Slot> = if fmt2 {
        (0..xn).map(|_| Slot { field: 1, ty: rng.below(7) as u8, dir: Direction::Forward }).collect()
    } else {
        gen_schema1(rng, xn)
    };
    let x: Vec<Val> = xschema.iter().map(|s| gen_val(rng, s.ty)).collect();
    let mut h = SHash::default();
    h.u64(fmt2 as u64);
    for s in schema.iter().chain(xschema.iter()) {
        h.u64(s.field as u64).u64(s.ty as u64).u64((s.dir == Direction::Reverse) as u64);
    }
    for v in a.iter().chain(b.iter()).chain(x.iter()) {
        h.str(&v.show());
    }
    let nontrivial = keep > 0 && keep < n || n == 1;
    let desc = json!({"format": if fmt2 { "tuple_key2" } else { "tuple_key" },
        "schema": schema.iter().map(|s| format!("f{}:t{}:{}", s.field, s.ty, if s.dir == Direction::Reverse { "desc" } else { "asc" })).collect::<Vec<_>>(),
        "a": show_vals(&a), "b": show_vals(&b), "x": show_vals(&x)});
    let r = guarded(|| -> Result<(), (String, String)> {
        let (ea, eb, eax): (Vec<u8>, Vec<u8>, Vec<u8>);
        let want = cmp1(&schema, &a, &b);
        let mut ax = a.clone();
        ax.extend(x.iter().cloned());
        let mut axs = schema.clone();
        axs.extend(xschema.iter().cloned());
        if fmt2 {
            ea = enc2(&a).into_bytes();
            eb = enc2(&b).into_bytes();
            eax = enc2(&ax).into_bytes();
            let types: Vec<u8> = schema.iter().map(|s| s.ty).collect();
            match dec2(&types, &tuple_key2::TupleKey::from_bytes(ea.clone())) {
                Ok(d) if d == a => {}
                other => return fail("fmt2:roundtrip", format!("decode(enc(a)) = {other:?}")),
            }
            let typesx: Vec<u8> = axs.iter().map(|s| s.ty).collect();
            match dec2(&typesx, &tuple_key2::TupleKey::from_bytes(eax.clone())) {
                Ok(d) if d == ax => {}
                other => return fail("fmt2:roundtrip", format!("decode(enc(a+x)) = {other:?}")),
            }
        } else {
            ea = enc1(&schema, &a).as_bytes().to_vec();
            eb = enc1(&schema, &b).as_bytes().to_vec();
            eax = enc1(&axs, &ax).as_bytes().to_vec();
            match dec1(&schema, &TupleKey::from(ea.as_slice())) {
                Ok(d) if d == a => {}
                other => return fail("fmt1:roundtrip", format!("decode(enc(a)) = {other:?}")),
            }
            match dec1(&axs, &TupleKey::from(eax.as_slice())) {
                Ok(d) if d == ax => {}
                other => return fail("fmt1:roundtrip", format!("decode(enc(a+x)) = {other:?}")),
            }
        }
        let tag = if fmt2 { "fmt2" } else { "fmt1" };
        let got = ea.cmp(&eb);
        if got != want {
            // name the element type at the first differing position: that is the explanation
            let pos = (0..n).find(|i| a[*i] != b[*i]).unwrap_or(0);
            if !fmt2 && schema[pos].dir == Direction::Reverse && desc_prefix_defect_applies(&a[pos], &b[pos]) {
                return fail("order:desc-string-prefix-pair", format!("descending strings {} / {}: tuples {want:?}, bytes {got:?}", a[pos].show(), b[pos].show()));
            }
            return fail(
                &format!("{tag}:order:{}{}", ["unit", "u32", "u64", "i32", "i64", "string", "bytes"][a[pos].ty() as usize],
                    if schema[pos].dir == Direction::Reverse { ":desc" } else { "" }),
                format!("tuples compare {want:?} but encodings compare {got:?}: {} vs {}", hex(&ea), hex(&eb)),
            );
        }
        if ea.cmp(&eax) != Ordering::Less {
            return fail(&format!("{tag}:extension"), format!("enc(a) !< enc(a+x): {} vs {}", hex(&ea), hex(&eax)));
        }
        if want == Ordering::Less && eax.cmp(&eb) != Ordering::Less {
            let pos = (0..n).find(|i| a[*i] != b[*i]).unwrap_or(0);
            if !fmt2 && schema[pos].dir == Direction::Reverse && desc_prefix_defect_applies(&a[pos], &b[pos]) {
                return fail("order:desc-string-prefix-pair", format!("descending strings {} / {} (extension clause)", a[pos].show(), b[pos].show()));
            }
            return fail(
                &format!("{tag}:extension:{}{}", ["unit", "u32", "u64", "i32", "i64", "string", "bytes"][a[pos].ty() as usize],
                    if schema[pos].dir == Direction::Reverse { ":desc" } else { "" }),
                format!("a < b but enc(a+x) !< enc(b): {} vs {}", hex(&eax), hex(&eb)),
            );
        }
        if want == Ordering::Greater && eb.cmp(&ea) != Ordering::Less {
            return fail(&format!("{tag}:order"), "asymmetric".into());
        }
        rep.count(if fmt2 { "pairs.tuple_key2" } else { "pairs.tuple_key" }, 1);
        if want != Ordering::Equal && keep > 0 {
            rep.count("pairs.common_prefix_then_boundary", 1);
        }
        Ok(())
    });
    let r = match r {
        Ok(r) => r,
        Err(p) => Err((format!("panic:{}", panic_site(&p)), format!("panic: {p}"))),
    };
    (h.get(), nontrivial, desc, r)
}

fn derived_case(rng: &mut Rng, rep: &mut Report) -> (u64, bool, serde_json::Value, Result<(), (String, String)>) {
    let tys = [2u8, 4, 5, 5, 1, 3];
    let a: Vec<Val> = tys.iter().map(|t| gen_val(rng, *t)).collect();
    let keep = rng.usize(7);
    let mut b = a.clone();
    for i in keep..6 {
        b[i] = if i == keep { neighbour(rng, &a[i]) } else { gen_val(rng, tys[i]) };
    }
    let mut h = SHash::default();
    h.u64(99);
    for v in a.iter().chain(b.iter()) {
        h.str(&v.show());
    }
    let desc = json!({"format": "tuple_key derive", "a": show_vals(&a), "b": show_vals(&b)});
    let r = guarded(|| -> Result<(), (String, String)> {
        let ka = derived_from(&a);
        let kb = derived_from(&b);
        let ta: TupleKey = ka.clone().into();
        let tb: TupleKey = kb.clone().into();
        match DerivedKey::try_from(ta.clone()) {
            Ok(k) if k == ka => {}
            other => return fail("derive:roundtrip", format!("{other:?}")),
        }
        let want = derived_cmp(&ka, &kb);
        let got = ta.as_bytes().cmp(tb.as_bytes());
        if want != got {
            // first differing field
            let pos = (0..6).find(|i| a[*i] != b[*i]).unwrap_or(0);
            if pos == 3 && desc_prefix_defect_applies(&a[3], &b[3]) {
                return fail("order:desc-string-prefix-pair", format!("derived key, #[reverse] string {} / {}: tuples {want:?}, bytes {got:?}", a[3].show(), b[3].show()));
            }
            return fail("derive:order", format!("{ka:?} vs {kb:?}: tuples {want:?}, bytes {got:?}"));
        }
        rep.count("pairs.derived", 1);
        Ok(())
    });
    let r = match r {
        Ok(r) => r,
        Err(p) => Err((format!("panic:{}", panic_site(&p)), format!("panic: {p}"))),
    };
    (h.get(), keep > 0, desc, r)
}

/// Decoders on arbitrary bytes and on mutated valid encodings: Ok or Err, never a panic.
fn hostile_case(rng: &mut Rng, rep: &mut Report) -> (u64, bool, serde_json::Value, Result<(), (String, String)>) {
    let n = 1 + rng.usize(4);
    let schema = gen_schema1(rng, n);
    let vals: Vec<Val> = schema.iter().map(|s| gen_val(rng, s.ty)).collect();
    let types2: Vec<u8> = (0..n).map(|_| rng.below(7) as u8).collect();
    let vals2: Vec<Val> = types2.iter().map(|t| gen_val(rng, *t)).collect();
    let fmt2 = rng.chance(1, 2);
    let mut bytes = if fmt2 { enc2(&vals2).into_bytes() } else { enc1(&schema, &vals).as_bytes().to_vec() };
    match rng.below(6) {
        0 => {
            let l = rng.usize(24);
            bytes = rng.bytes(l);
        }
        1 => {
            let l = rng.usize(bytes.len() + 1);
            bytes.truncate(l);
        }
        2 => {
            if !bytes.is_empty() {
                let i = rng.usize(bytes.len());
                bytes[i] ^= 1 << rng.below(8);
            }
        }
        3 => {
            if !bytes.is_empty() {
                let i = rng.usize(bytes.len());
                bytes.remove(i);
            }
        }
        4 => {
            let i = rng.usize(bytes.len() + 1);
            let l = 1 + rng.usize(12);
            let fill = *rng.pick(&[0x00u8, 0x01, 0x80, 0xff, 0x21, 0x22, 0x2a, 0x10]);
            for _ in 0..l {
                bytes.insert(i, fill);
            }
        }
        _ => {
            // a run of odd bytes (continuation bit set) where a tag is expected
            let l = 9 + rng.usize(6);
            let mut run: Vec<u8> = (0..l).map(|_| (rng.below(128) as u8) << 1 | 1).collect();
            run.extend_from_slice(&bytes);
            bytes = run;
        }
    }
    let mut h = SHash::default();
    h.u64(fmt2 as u64).bytes(&bytes);
    let desc = json!({"hostile": if fmt2 { "tuple_key2" } else { "tuple_key" }, "bytes": hex(&bytes)});
    let r = guarded(|| {
        if fmt2 {
            let key = tuple_key2::TupleKey::from_bytes(bytes.clone());
            let _ = dec2(&types2, &key);
            // every single-type parser at offset 0
            for t in 0..7u8 {
                let _ = dec2(&[t], &key);
            }
            let mut p = key.parser();
            let _ = p.u8();
            let mut p = key.parser();
            let _ = p.u16();
            let mut p = key.parser();
            let _ = p.i8();
            let mut p = key.parser();
            let _ = p.i16();
            let _ = key.boundary_candidates();
            let _ = tuple_key2::boundary_candidates(&bytes);
        } else {
            let tk = TupleKey::from(bytes.as_slice());
            let _ = dec1(&schema, &tk);
            let _: Vec<&[u8]> = tk.iter().collect();
            let p = TupleKeyParser::new(&tk);
            let _ = p.peek_next();
            let _ = DerivedKey::try_from(tk.clone());
            // schema walk
            let leaf = tuple_key::Schema::new(3u32, std::iter::empty());
            let mid = tuple_key::Schema::new(2u32, vec![((FieldNumber::must(schema[0].field), "leaf".to_string()), leaf)].into_iter());
            let root = tuple_key::Schema::new(1u32, vec![((FieldNumber::must(schema[0].field), "mid".to_string()), mid)].into_iter());
            let _ = root.lookup(&tk);
            let _ = root.args_for_key(&tk);
            let _ = root.is_terminal(&tk);
            let _ = tk.conforms_to(&root);
        }
        rep.count("hostile_inputs", 1);
    });
    let r = match r {
        Ok(()) => Ok(()),
        Err(p) => Err((format!("decoder-panic:{}", panic_site(&p)), format!("panic: {p}"))),
    };
    (h.get(), true, desc, r)
}

pub fn run(args: &Args) {
    let mut rep = Report::new("c16", args);
    rep.max_samples = 5;
    let cases = args.u64("cases", 20000);
    let (seed, shard) = (rep.seed, rep.shard);
    let only = args.opt("case").map(|c| c.parse::<u64>().unwrap());
    for case_no in 0..cases {
        if let Some(o) = only {
            if o != case_no {
                continue;
            }
        }
        let mut rng = Rng::derive(seed, "c16", shard, case_no);
        let (h, nontrivial, desc, res) = match case_no % 8 {
            0..=2 => pair_case(&mut rng, &mut rep, false),
            3..=5 => pair_case(&mut rng, &mut rep, true),
            6 => derived_case(&mut rng, &mut rep),
            _ => hostile_case(&mut rng, &mut rep),
        };
        rep.evaluations += 1;
        if nontrivial {
            rep.nontrivial.insert(h);
            if case_no % 997 < 8 {
                rep.sample(desc.clone());
            }
        }
        if let Err((sig, msg)) = res {
            rep.violation("c16", &sig, json!({"case": desc, "message": msg,
                "replay": format!("vh c16 seed={seed} shard={shard} cases={} case={case_no}", case_no + 1)}));
        }
    }
    rep.finish(args);
}
