//! C05, store-free half: the garbage collector itself over enumerated per-key histories.
//!
//! For every policy of a list (versions = 1..4, ttl, any/all nestings), several `now` values and
//! every sequence of values and tombstones of length 1..=L for one key (newest first), placed
//! between a key that ends in a run of tombstones and a live key, the real
//! GarbageCollectionPolicy::collector is drained over a Vec-backed cursor and what it retains is
//! judged:
//!   * retained entries are entries of the input, in input order, each at most once;
//!   * everything an independent reading of the policy language requires is retained;
//!   * a reader at the latest time never sees a different value after the collection than before
//!     (a dropped tombstone must take everything it shadows with it; a deleted key stays deleted).
//! Retaining more than the reading requires is permitted by the property and only counted.

use std::collections::{BTreeMap, HashSet};
use std::str::FromStr;

use serde_json::json;
use sst::gc::GarbageCollectionPolicy;
use sst::Cursor;

use crate::c11::VecCursor;
use crate::e1::Policy;
use crate::r#gen::Entry;
use crate::util::*;

const POLICIES: &[&str] = &[
    "versions = 1",
    "versions = 2",
    "versions = 3",
    "versions = 4",
    "ttl_micros = 1",
    "ttl_micros = 5",
    "ttl_micros = 100",
    "any(versions = 1, ttl_micros = 5)",
    "any(versions = 2, ttl_micros = 3)",
    "all(versions = 2, ttl_micros = 100)",
    "all(versions = 3, ttl_micros = 6)",
    "any(all(versions = 2, ttl_micros = 4), versions = 1)",
    "all(any(versions = 1, ttl_micros = 8), versions = 3)",
];

fn visible(entries: &[Entry]) -> BTreeMap<Vec<u8>, Option<Vec<u8>>> {
    // entries are sorted key asc, ts desc: the first entry of a key is what a reader sees
    let mut m = BTreeMap::new();
    for e in entries {
        m.entry(e.key.clone()).or_insert_with(|| e.value.clone());
    }
    m
}

fn pattern_entries(key: &[u8], pattern: u32, len: usize, ts_step: u64, id: &mut u64) -> Vec<Entry> {
    // bit i set = tombstone at position i (0 = newest)
    (0..len)
        .map(|i| {
            *id += 1;
            let ts = (len - i) as u64 * ts_step;
            Entry { key: key.to_vec(), ts, value: if pattern >> i & 1 == 1 { None } else { Some(format!("v{}", *id).into_bytes()) } }
        })
        .collect()
}

pub fn run(args: &Args) {
    let mut rep = Report::new("c05gc", args);
    rep.max_samples = 4;
    let max_len = args.u64("max_len", 7) as usize;
    let random_cases = args.u64("random", 2000);
    let (seed, shard) = (rep.seed, rep.shard);
    let shards = args.u64("shards", 1).max(1);
    quiet_panics();
    let mut id = 0u64;
    let mut case_no = 0u64;
    let judge = |rep: &mut Report, policy_s: &str, now: u64, input: &[Entry], what: serde_json::Value| {
        let policy = match GarbageCollectionPolicy::from_str(policy_s) {
            Ok(p) => p,
            Err(e) => {
                rep.inconclusive.push(format!("policy {policy_s} does not parse: {e:?}"));
                return;
            }
        };
        let model = Policy::parse(policy_s).expect("harness reads the policy");
        rep.evaluations += 1;
        let r = guarded(|| -> Result<Vec<(Vec<u8>, u64)>, String> {
            let mut c = VecCursor::new(input.to_vec());
            c.seek_to_first().map_err(|e| e.to_string())?;
            c.next().map_err(|e| e.to_string())?;
            let mut gc = policy.collector(c, now).map_err(|e| e.to_string())?;
            let mut out = Vec::new();
            while let Some(k) = gc.next().map_err(|e| e.to_string())? {
                out.push((k.key.to_vec(), k.timestamp));
                if out.len() > input.len() + 4 {
                    return Err("collector returns more keys than it was given".into());
                }
            }
            Ok(out)
        });
        let show_in = || input.iter().map(|e| format!("{}@{}{}", show(&e.key), e.ts, if e.value.is_none() { "x" } else { "" })).collect::<Vec<_>>().join(" ");
        let retained = match r {
            Err(p) => {
                rep.violation("c05gc", &format!("panic:{}", panic_site(&p)), json!({"policy": policy_s, "now": now, "input": show_in(), "message": p, "case": what}));
                return;
            }
            Ok(Err(e)) => {
                rep.violation("c05gc", &format!("error:{}", crate::e1::err_code(&e)), json!({"policy": policy_s, "now": now, "input": show_in(), "message": e, "case": what}));
                return;
            }
            Ok(Ok(x)) => x,
        };
        let show_out = || retained.iter().map(|(k, ts)| format!("{}@{ts}", show(k))).collect::<Vec<_>>().join(" ");
        // (1) a subsequence of the input
        let mut pos = 0usize;
        for (k, ts) in &retained {
            match input[pos..].iter().position(|e| &e.key == k && e.ts == *ts) {
                Some(off) => pos += off + 1,
                None => {
                    rep.violation("c05gc", "retained-entry-not-in-input-order", json!({"policy": policy_s, "now": now, "input": show_in(), "retained": show_out(),
                        "message": format!("the collector returns {}@{ts}, which is not an entry of the input at or after the previous one", show(k)), "case": what}));
                    return;
                }
            }
        }
        // (2) the policy's lower bound
        let must = model.must_retain(input, now);
        let got: HashSet<(Vec<u8>, u64)> = retained.iter().cloned().collect();
        if let Some(m) = must.iter().find(|m| !got.contains(*m)) {
            rep.violation("c05gc", "dropped-an-entry-the-policy-retains", json!({"policy": policy_s, "now": now, "input": show_in(), "retained": show_out(),
                "message": format!("the policy retains {}@{}, the collector drops it", show(&m.0), m.1), "case": what}));
            return;
        }
        if got.len() > must.len() {
            rep.count("retained_more_than_the_reading_requires", 1);
        } else {
            rep.count("retained_exactly_what_the_reading_requires", 1);
        }
        // (3) what the latest reader sees
        let after: Vec<Entry> = input.iter().filter(|e| got.contains(&(e.key.clone(), e.ts))).cloned().collect();
        let (v0, v1) = (visible(input), visible(&after));
        for (k, before) in &v0 {
            let now_sees = v1.get(k).cloned().unwrap_or(None);
            // (an expiring policy may take the visible value away: that is (2)'s business; what
            // may never happen is that the reader sees something else than before)
            if *before != now_sees && now_sees.is_some() {
                rep.violation("c05gc", if before.is_none() { "deleted-key-resurrected" } else { "current-value-changed" }, json!({"policy": policy_s, "now": now, "input": show_in(), "retained": show_out(),
                    "message": format!("key {}: a reader saw {:?} before the collection and sees {:?} after it", show(k), before.as_ref().map(|v| show(v)), now_sees.as_ref().map(|v| show(v))), "case": what}));
                return;
            }
        }
        if retained.len() < input.len() {
            rep.count("collections_that_drop_something", 1);
        }
    };
    // enumerated patterns
    let neighbours_before: [&[u8]; 3] = [b"", b"T", b"TT"]; // previous key: absent, one tombstone, tombstone over nothing twice
    for (pi, policy_s) in POLICIES.iter().enumerate() {
        for len in 1..=max_len {
            for pattern in 0u32..(1 << len) {
                case_no += 1;
                if case_no % shards != shard % shards {
                    continue;
                }
                for &now in &[0u64, 7, 100] {
                    for (ni, nb) in neighbours_before.iter().enumerate() {
                        let ts_step = 1 + (pattern as u64 + len as u64) % 3;
                        let mut input: Vec<Entry> = Vec::new();
                        for (i, _) in nb.iter().enumerate() {
                            input.push(Entry { key: b"a-prev".to_vec(), ts: 50 - i as u64, value: None });
                        }
                        if ni == 2 {
                            // a value under the tombstones of the previous key
                            input.push(Entry { key: b"a-prev".to_vec(), ts: 1, value: Some(b"old".to_vec()) });
                        }
                        input.extend(pattern_entries(b"k", pattern, len, ts_step, &mut id));
                        input.push(Entry { key: b"z-next".to_vec(), ts: 9, value: Some(b"live".to_vec()) });
                        let mut hh = SHash::default();
                        hh.u64(pi as u64).u64(len as u64).u64(pattern as u64).u64(now).u64(ni as u64);
                        if len >= 2 && pattern != 0 {
                            rep.nontrivial.insert(hh.get());
                        }
                        judge(&mut rep, policy_s, now, &input, json!({"policy_index": pi, "len": len, "pattern": format!("{pattern:b}"), "neighbour": ni}));
                    }
                }
            }
        }
    }
    rep.count("patterns.enumerated_up_to_length", max_len as u64);
    // random multi-key inputs
    let mut rng = Rng::derive(seed, "c05gc", shard, 0);
    for n in 0..random_cases {
        let policy_s = *rng.pick(POLICIES);
        let now = *rng.pick(&[0u64, 3, 10, 50, 1000]);
        let nkeys = 1 + rng.usize(6);
        let mut input = Vec::new();
        for k in 0..nkeys {
            let len = 1 + rng.usize(9);
            let mut ts = 1 + rng.below(40) + len as u64 * 3;
            for _ in 0..len {
                id += 1;
                input.push(Entry { key: format!("k{k}").into_bytes(), ts, value: if rng.chance(2, 5) { None } else { Some(format!("v{id}").into_bytes()) } });
                ts -= 1 + rng.below(3).min(ts - 1);
                if ts == 0 {
                    break;
                }
            }
        }
        let mut hh = SHash::default();
        hh.u64(n).u64(seed).u64(shard).u64(77);
        rep.nontrivial.insert(hh.get());
        if rep.want_sample() {
            rep.sample(json!({"policy": policy_s, "now": now, "input": input.iter().map(|e| format!("{}@{}{}", show(&e.key), e.ts, if e.value.is_none() { "x" } else { "" })).collect::<Vec<_>>().join(" ")}));
        }
        judge(&mut rep, policy_s, now, &input, json!({"random": n}));
    }
    rep.finish(args);
}
