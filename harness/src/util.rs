//! Shared pieces of the verification harness: PRNG, argument parsing, reporting.

use std::collections::{BTreeMap, HashSet};
use std::panic::{AssertUnwindSafe, catch_unwind};
use std::path::PathBuf;
use std::sync::atomic::{AtomicU64, Ordering};

use serde_json::{Value, json};

////////////////////////////////////////////// Rng ////////////////////////////////////////////////

pub fn splitmix64(x: &mut u64) -> u64 {
    *x = x.wrapping_add(0x9E3779B97F4A7C15);
    let mut z = *x;
    z = (z ^ (z >> 30)).wrapping_mul(0xBF58476D1CE4E5B9);
    z = (z ^ (z >> 27)).wrapping_mul(0x94D049BB133111EB);
    z ^ (z >> 31)
}

#[derive(Clone, Debug)]
pub struct Rng {
    s: u64,
}

impl Rng {
    pub fn new(seed: u64) -> Self {
        let mut s = seed ^ 0x5851F42D4C957F2D;
        splitmix64(&mut s);
        Self { s }
    }

    /// Derive an independent stream keyed by a label and two integers.
    pub fn derive(seed: u64, label: &str, a: u64, b: u64) -> Self {
        let mut h = fnv1a(label.as_bytes());
        h ^= seed.wrapping_mul(0x9E3779B97F4A7C15);
        h = h.rotate_left(17) ^ a.wrapping_mul(0xD6E8FEB86659FD93);
        h = h.rotate_left(23) ^ b.wrapping_mul(0xCA5A826395121157);
        Self::new(h)
    }

    pub fn u64(&mut self) -> u64 {
        splitmix64(&mut self.s)
    }

    pub fn below(&mut self, n: u64) -> u64 {
        if n == 0 { 0 } else { self.u64() % n }
    }

    pub fn range(&mut self, lo: u64, hi_incl: u64) -> u64 {
        lo + self.below(hi_incl - lo + 1)
    }

    pub fn usize(&mut self, n: usize) -> usize {
        self.below(n as u64) as usize
    }

    pub fn chance(&mut self, num: u64, den: u64) -> bool {
        self.below(den) < num
    }

    pub fn pick<'a, T>(&mut self, xs: &'a [T]) -> &'a T {
        &xs[self.usize(xs.len())]
    }

    pub fn bytes(&mut self, n: usize) -> Vec<u8> {
        let mut v = Vec::with_capacity(n);
        while v.len() < n {
            let x = self.u64().to_le_bytes();
            let take = std::cmp::min(8, n - v.len());
            v.extend_from_slice(&x[..take]);
        }
        v
    }

    pub fn shuffle<T>(&mut self, xs: &mut [T]) {
        for i in (1..xs.len()).rev() {
            let j = self.usize(i + 1);
            xs.swap(i, j);
        }
    }
}

pub fn fnv1a(bytes: &[u8]) -> u64 {
    let mut h: u64 = 0xcbf29ce484222325;
    for b in bytes {
        h ^= *b as u64;
        h = h.wrapping_mul(0x100000001b3);
    }
    h
}

/// Incremental structural hasher.
#[derive(Clone)]
pub struct SHash(pub u64);

impl Default for SHash {
    fn default() -> Self {
        SHash(0xcbf29ce484222325)
    }
}

impl SHash {
    pub fn bytes(&mut self, b: &[u8]) -> &mut Self {
        for x in b {
            self.0 ^= *x as u64;
            self.0 = self.0.wrapping_mul(0x100000001b3);
        }
        self.0 ^= 0xff;
        self.0 = self.0.wrapping_mul(0x100000001b3);
        self
    }
    pub fn u64(&mut self, x: u64) -> &mut Self {
        self.bytes(&x.to_le_bytes())
    }
    pub fn str(&mut self, s: &str) -> &mut Self {
        self.bytes(s.as_bytes())
    }
    pub fn get(&self) -> u64 {
        self.0
    }
}

////////////////////////////////////////////// Args ///////////////////////////////////////////////

#[derive(Clone, Debug, Default)]
pub struct Args {
    pub map: BTreeMap<String, String>,
}

impl Args {
    pub fn parse(args: &[String]) -> Self {
        let mut map = BTreeMap::new();
        for a in args {
            if let Some((k, v)) = a.split_once('=') {
                map.insert(k.trim_start_matches("--").to_string(), v.to_string());
            } else {
                map.insert(a.trim_start_matches("--").to_string(), "1".to_string());
            }
        }
        Self { map }
    }

    pub fn u64(&self, key: &str, default: u64) -> u64 {
        self.map
            .get(key)
            .map(|x| x.parse().unwrap_or_else(|_| panic!("bad integer for {key}")))
            .unwrap_or(default)
    }

    pub fn str(&self, key: &str, default: &str) -> String {
        self.map.get(key).cloned().unwrap_or(default.to_string())
    }

    pub fn opt(&self, key: &str) -> Option<String> {
        self.map.get(key).cloned()
    }

    pub fn flag(&self, key: &str) -> bool {
        self.map.get(key).map(|x| x != "0").unwrap_or(false)
    }
}

///////////////////////////////////////////// Report //////////////////////////////////////////////

pub fn hex(b: &[u8]) -> String {
    let mut s = String::with_capacity(b.len() * 2);
    for x in b {
        s.push_str(&format!("{x:02x}"));
    }
    s
}

pub fn unhex(s: &str) -> Vec<u8> {
    (0..s.len() / 2)
        .map(|i| u8::from_str_radix(&s[2 * i..2 * i + 2], 16).unwrap())
        .collect()
}

/// Printable rendering of a byte string for samples and witnesses.
pub fn show(b: &[u8]) -> String {
    if b.len() <= 24 && b.iter().all(|c| c.is_ascii_graphic()) {
        format!("'{}'", String::from_utf8_lossy(b))
    } else if b.len() <= 24 {
        format!("x{}", hex(b))
    } else {
        format!("x{}..[{}B,h={:08x}]", hex(&b[..8]), b.len(), fnv1a(b) as u32)
    }
}

pub struct Report {
    pub check: String,
    pub shard: u64,
    pub seed: u64,
    pub evaluations: u64,
    pub nontrivial: HashSet<u64>,
    pub counters: BTreeMap<String, u64>,
    pub samples: Vec<Value>,
    pub violations: Vec<Value>,
    pub inconclusive: Vec<String>,
    pub notes: BTreeMap<String, Value>,
    pub max_samples: usize,
    pub max_violations: usize,
    pub violations_total: u64,
    start: std::time::Instant,
}

impl Report {
    pub fn new(check: &str, args: &Args) -> Self {
        Self {
            check: check.to_string(),
            shard: args.u64("shard", 0),
            seed: args.u64("seed", 1),
            evaluations: 0,
            nontrivial: HashSet::new(),
            counters: BTreeMap::new(),
            samples: Vec::new(),
            violations: Vec::new(),
            inconclusive: Vec::new(),
            notes: BTreeMap::new(),
            max_samples: 3,
            max_violations: 20,
            violations_total: 0,
            start: std::time::Instant::now(),
        }
    }

    pub fn count(&mut self, name: &str, n: u64) {
        *self.counters.entry(name.to_string()).or_insert(0) += n;
    }

    pub fn max(&mut self, name: &str, n: u64) {
        let e = self.counters.entry(name.to_string()).or_insert(0);
        if *e < n {
            *e = n;
        }
    }

    pub fn sample(&mut self, v: Value) {
        if self.samples.len() < self.max_samples {
            self.samples.push(v);
        }
    }

    pub fn want_sample(&self) -> bool {
        self.samples.len() < self.max_samples
    }

    /// Record a violation.  `kind` is a short class name, `signature` the verified explanation
    /// used for known-finding matching, `detail` everything needed to replay.
    pub fn violation(&mut self, kind: &str, signature: &str, detail: Value) {
        self.violations_total += 1;
        self.count(&format!("violation.{kind}"), 1);
        // Keep at most a few per (kind, signature) so one defect does not crowd out others.
        let same = self
            .violations
            .iter()
            .filter(|v| v["kind"] == kind && v["signature"] == signature)
            .count();
        if same < 3 && self.violations.len() < self.max_violations {
            self.violations.push(json!({
                "kind": kind,
                "signature": signature,
                "detail": detail,
            }));
        }
    }

    pub fn elapsed(&self) -> f64 {
        self.start.elapsed().as_secs_f64()
    }

    pub fn finish(self, args: &Args) {
        let out = args.str("out", "");
        let hashes: Vec<u64> = self.nontrivial.iter().copied().collect();
        let v = json!({
            "check": self.check,
            "shard": self.shard,
            "seed": self.seed,
            "evaluations": self.evaluations,
            "nontrivial_local": hashes.len(),
            "counters": self.counters,
            "samples": self.samples,
            "violations": self.violations,
            "violations_total": self.violations_total,
            "inconclusive": self.inconclusive,
            "notes": self.notes,
            "wall_s": self.start.elapsed().as_secs_f64(),
        });
        if out.is_empty() {
            println!("{}", serde_json::to_string_pretty(&v).unwrap());
        } else {
            let mut hb = Vec::with_capacity(hashes.len() * 8);
            for h in hashes {
                hb.extend_from_slice(&h.to_le_bytes());
            }
            std::fs::write(format!("{out}.hashes"), hb).expect("write hashes");
            std::fs::write(&out, serde_json::to_vec(&v).unwrap()).expect("write report");
        }
    }
}

////////////////////////////////////////////// panics /////////////////////////////////////////////

thread_local! {
    static LAST_PANIC: std::cell::RefCell<Option<String>> = const { std::cell::RefCell::new(None) };
}

/// Install a panic hook that records the message (with location) instead of printing it.
pub fn quiet_panics() {
    std::panic::set_hook(Box::new(|info| {
        let msg = if let Some(s) = info.payload().downcast_ref::<&str>() {
            s.to_string()
        } else if let Some(s) = info.payload().downcast_ref::<String>() {
            s.clone()
        } else {
            "<non-string panic>".to_string()
        };
        let loc = info
            .location()
            .map(|l| format!("{}:{}", l.file(), l.line()))
            .unwrap_or_default();
        LAST_PANIC.with(|p| *p.borrow_mut() = Some(format!("{msg} @ {loc}")));
        // keep a bounded record on stderr: if the process aborts (panic while unwinding, panic in
        // a thread nobody joins) this is all the driver has to name the site
        static SHOWN: AtomicU64 = AtomicU64::new(0);
        if SHOWN.fetch_add(1, Ordering::Relaxed) < 40 || std::env::var("VH_SHOW_PANICS").is_ok() {
            eprintln!("panicked at {loc}: {}", msg.lines().next().unwrap_or(""));
        }
    }));
}

/// Run `f`, converting a panic into Err(message @ location).
pub fn guarded<T>(f: impl FnOnce() -> T) -> Result<T, String> {
    match catch_unwind(AssertUnwindSafe(f)) {
        Ok(v) => Ok(v),
        Err(_) => Err(LAST_PANIC
            .with(|p| p.borrow_mut().take())
            .unwrap_or_else(|| "<panic>".to_string())),
    }
}

/// Strip the volatile parts from a panic message so it can serve as a signature.
pub fn panic_site(msg: &str) -> String {
    match msg.rsplit_once(" @ ") {
        Some((_, loc)) => {
            let loc = loc.trim_start_matches("/repo/");
            // drop the line number: keeps the signature stable across hook commits
            match loc.rsplit_once(':') {
                Some((file, _)) => file.to_string(),
                None => loc.to_string(),
            }
        }
        None => "unknown".to_string(),
    }
}

////////////////////////////////////////////// scratch ////////////////////////////////////////////

static SCRATCH_COUNTER: AtomicU64 = AtomicU64::new(0);

pub fn scratch_base() -> PathBuf {
    if let Ok(p) = std::env::var("VH_SCRATCH") {
        return PathBuf::from(p);
    }
    let shm = PathBuf::from("/dev/shm");
    if shm.is_dir() {
        shm
    } else {
        std::env::temp_dir()
    }
}

pub struct Scratch {
    pub path: PathBuf,
    keep: bool,
}

impl Scratch {
    pub fn new(tag: &str) -> Self {
        let n = SCRATCH_COUNTER.fetch_add(1, Ordering::Relaxed);
        let path = scratch_base().join(format!("verif-{}-{}-{}", std::process::id(), tag, n));
        let _ = std::fs::remove_dir_all(&path);
        std::fs::create_dir_all(&path).expect("create scratch dir");
        Self { path, keep: false }
    }

    pub fn keep(&mut self) {
        self.keep = true;
    }

    pub fn str(&self) -> String {
        self.path.to_string_lossy().to_string()
    }
}

impl Drop for Scratch {
    fn drop(&mut self) {
        if !self.keep {
            let _ = std::fs::remove_dir_all(&self.path);
        }
    }
}


/// Signature of a process that died without a report: the sanitizer's own headline and the
/// first frame inside /repo if there is one, else the panic site.
pub fn death_signature(stderr: &str) -> String {
    if let Some(i) = stderr.find("Sanitizer: ") {
        let start = stderr[..i].rfind(|c: char| !c.is_ascii_alphabetic()).map(|x| x + 1).unwrap_or(0);
        let tool = &stderr[start..i + "Sanitizer".len()];
        let rest = &stderr[i + "Sanitizer: ".len()..];
        let what: String = rest.chars().take_while(|c| c.is_ascii_alphabetic() || *c == '-' || *c == ' ').collect();
        let what = what.trim().replace(' ', "-");
        let frame = stderr
            .match_indices("/repo/")
            .next()
            .map(|(j, _)| {
                let f: String = stderr[j + 6..].chars().take_while(|c| !c.is_whitespace() && *c != ':').collect();
                f
            })
            .unwrap_or_else(|| "unknown".to_string());
        return format!("{tool}:{what}:{frame}");
    }
    panic_site(stderr)
}
