//! C14 — setsum is an order-independent, invertible, composable multiset checksum that equals the
//! published definition.
//!
//! `c14`    : algebraic laws over generated values (incl. boundary columns through from_digest).
//! `c14ref` : emits generated multisets / key-value framings with the digests the real code
//!            computed; lib/c14_reference.py recomputes them with hashlib.sha3_256 and integer
//!            arithmetic from the published definition (the independent oracle).

use std::io::Write;

use serde_json::json;
use setsum::Setsum;
use sha3::{Digest, Sha3_256};

use crate::util::*;

pub const PRIMES: [u32; 8] = [
    4294967291, 4294967279, 4294967231, 4294967197, 4294967189, 4294967161, 4294967143, 4294967111,
];

fn cols(s: &Setsum) -> [u32; 8] {
    let d = s.digest();
    let mut c = [0u32; 8];
    for i in 0..8 {
        c[i] = u32::from_le_bytes([d[4 * i], d[4 * i + 1], d[4 * i + 2], d[4 * i + 3]]);
    }
    c
}

fn from_cols(c: [u32; 8]) -> Setsum {
    let mut d = [0u8; 32];
    for i in 0..8 {
        d[4 * i..4 * i + 4].copy_from_slice(&c[i].to_le_bytes());
    }
    Setsum::from_digest(d)
}

/// value of each column modulo its prime — comparisons of results that involve non-canonical
/// inputs are made on this (the property does not demand bit-identical results for those).
fn canon(s: &Setsum) -> [u64; 8] {
    let c = cols(s);
    let mut o = [0u64; 8];
    for i in 0..8 {
        o[i] = c[i] as u64 % PRIMES[i] as u64;
    }
    o
}

fn is_canonical(s: &Setsum) -> bool {
    let c = cols(s);
    (0..8).all(|i| c[i] < PRIMES[i])
}

fn item(rng: &mut Rng) -> Vec<u8> {
    match rng.below(10) {
        0 => vec![],
        1 => vec![rng.below(256) as u8],
        2 => b"this is the first value".to_vec(),
        3 => vec![0u8; rng.usize(70)],
        _ => {
            let n = rng.usize(40);
            rng.bytes(n)
        }
    }
}

fn boundary_col(rng: &mut Rng, i: usize, allow_noncanonical: bool) -> (u32, bool) {
    let p = PRIMES[i];
    match rng.below(if allow_noncanonical { 12 } else { 7 }) {
        0 => (0, true),
        1 => (1, true),
        2 => (p - 1, true),
        3 => (p - 2, true),
        4 => (p / 2, true),
        5 | 6 => ((rng.u64() % p as u64) as u32, true),
        7 => (p, false),
        8 => (p + 1, false),
        9 => (u32::MAX, false),
        10 => (u32::MAX - 1, false),
        _ => (p + (rng.u64() % (u32::MAX - p) as u64) as u32, false),
    }
}

fn value(rng: &mut Rng, allow_noncanonical: bool) -> (Setsum, bool) {
    if rng.chance(1, 3) {
        let mut s = Setsum::default();
        for _ in 0..rng.usize(5) {
            s.insert(&item(rng));
        }
        (s, true)
    } else {
        // second component: false if a column >= its prime was fed to from_digest
        let mut c = [0u32; 8];
        let mut all_canon = true;
        for i in 0..8 {
            let (v, canon) = boundary_col(rng, i, allow_noncanonical);
            c[i] = v;
            all_canon &= canon;
        }
        (from_cols(c), all_canon)
    }
}

fn fail(sig: &str, msg: String) -> Result<(), (String, String)> {
    Err((sig.to_string(), msg))
}

fn laws_case(rng: &mut Rng, rep: &mut Report) -> (u64, bool, serde_json::Value, Result<(), (String, String)>) {
    let mut h = SHash::default();
    let style = rng.below(6);
    h.u64(style);
    let mut nontrivial = false;
    let mut desc = json!({"law": style});
    let r = guarded(|| -> Result<(), (String, String)> {
        match style {
            0 => {
                // order independence + union = sum + remove undoes insert, over a multiset
                let n = 1 + rng.usize(12);
                let mut items: Vec<Vec<u8>> = (0..n).map(|_| item(rng)).collect();
                if rng.chance(1, 2) && !items.is_empty() {
                    let d = items[rng.usize(items.len())].clone();
                    items.push(d); // repeated item
                }
                for it in &items {
                    h.bytes(it);
                }
                let has_rep = {
                    let mut s = items.clone();
                    s.sort();
                    s.windows(2).any(|w| w[0] == w[1])
                };
                nontrivial = has_rep || items.iter().any(|i| i.is_empty());
                desc = json!({"law": "order/union/remove", "items": items.iter().map(|i| hex(i)).collect::<Vec<_>>()});
                let mut a = Setsum::default();
                for it in &items {
                    a.insert(it);
                }
                let mut shuffled = items.clone();
                rng.shuffle(&mut shuffled);
                let mut b = Setsum::default();
                for it in &shuffled {
                    b.insert(it);
                }
                if a != b {
                    return fail("order-dependence", format!("{a:?} != {b:?}"));
                }
                let cut = rng.usize(items.len() + 1);
                let mut l = Setsum::default();
                let mut r = Setsum::default();
                for it in &items[..cut] {
                    l.insert(it);
                }
                for it in &items[cut..] {
                    r.insert(it);
                }
                if l + r != a {
                    return fail("union-not-sum", format!("{l:?} + {r:?} != {a:?}"));
                }
                let mut lr = l;
                lr += r;
                if lr != a {
                    return fail("union-not-sum", "AddAssign differs from Add".into());
                }
                if a - r != l || a - l != r {
                    return fail("sub-not-inverse", format!("{a:?} - {r:?} != {l:?}"));
                }
                // remove in random order undoes insert
                let mut c = a;
                let mut rem = items.clone();
                rng.shuffle(&mut rem);
                let k = rng.usize(rem.len() + 1);
                for it in &rem[..k] {
                    c.remove(it);
                }
                let mut expect = Setsum::default();
                for it in &rem[k..] {
                    expect.insert(it);
                }
                if c != expect {
                    return fail("remove-not-inverse", format!("after removing {k} items: {c:?} != {expect:?}"));
                }
                if !is_canonical(&c) || !is_canonical(&a) {
                    return fail("non-canonical-result", format!("{a:?} / {c:?} has a column >= its prime"));
                }
                rep.count("law.multiset", 1);
            }
            1 => {
                // vectored split at every position
                let it = item(rng);
                h.bytes(&it);
                nontrivial = true;
                desc = json!({"law": "vectored-split", "item": hex(&it)});
                let mut whole = Setsum::default();
                whole.insert(&it);
                for i in 0..=it.len() {
                    for j in i..=it.len() {
                        let mut s = Setsum::default();
                        s.insert_vectored(&[&it[..i], &it[i..j], &it[j..]]);
                        if s != whole {
                            return fail("vectored-split", format!("split {i},{j} of {} differs", hex(&it)));
                        }
                        let mut t = whole;
                        t.remove_vectored(&[&it[..i], &it[i..j], &it[j..]]);
                        if t != Setsum::default() {
                            return fail("vectored-split", format!("remove_vectored split {i},{j} of {} does not cancel", hex(&it)));
                        }
                        if j > i + 6 {
                            break;
                        }
                    }
                }
                rep.count("law.vectored", 1);
            }
            2 | 3 => {
                // add / sub laws on boundary values, canonical (2) or including non-canonical (3)
                let nc = style == 3;
                let (a, ca) = value(rng, nc);
                let (b, cb) = value(rng, nc);
                let (c, cc) = value(rng, nc);
                for x in [&a, &b, &c] {
                    h.bytes(&x.digest());
                }
                h.u64(ca as u64 + 2 * cb as u64 + 4 * cc as u64);
                nontrivial = true;
                let anc = !(ca && cb && cc);
                if anc {
                    rep.count("law.addsub_noncanonical_inputs", 1);
                }
                desc = json!({"law": "add/sub", "a": a.hexdigest(), "b": b.hexdigest(), "c": c.hexdigest(), "noncanonical_input": anc});
                let ab = a + b;
                // the published definition reduces every column modulo its prime: whatever went into
                // from_digest, a value that comes out of the API shows reduced columns, and `==`
                // agrees with equality of the values (so two tools holding the same multiset agree).
                for (nm, x) in [("a", &a), ("b", &b), ("c", &c), ("a+b", &ab), ("a-b", &(a - b))] {
                    if !is_canonical(x) {
                        return fail("digest-column-not-reduced", format!("{nm} = {x:?} shows a column >= its prime"));
                    }
                }
                for (x, y) in [(&a, &b), (&ab, &(b + a)), (&(ab - b), &a), (&(a - a), &Setsum::default())] {
                    if (canon(x) == canon(y)) != (x == y) {
                        return fail("eq-disagrees-with-value", format!("{x:?} vs {y:?}: values equal = {}, == gives {}", canon(x) == canon(y), x == y));
                    }
                }
                rep.count("law.reduced_columns", 1);
                if canon(&(ab - b)) != canon(&a) {
                    return fail(if anc { "sub-not-inverse-noncanonical" } else { "sub-not-inverse" },
                        format!("({a:?} + {b:?}) - {b:?} = {:?}", ab - b));
                }
                if canon(&((a - b) + b)) != canon(&a) {
                    return fail(if anc { "sub-not-inverse-noncanonical" } else { "sub-not-inverse" },
                        format!("({a:?} - {b:?}) + {b:?} = {:?}", (a - b) + b));
                }
                if canon(&(a + b)) != canon(&(b + a)) {
                    return fail("add-not-commutative", format!("{a:?} {b:?}"));
                }
                if canon(&((a + b) + c)) != canon(&(a + (b + c))) {
                    return fail(if anc { "add-not-associative-noncanonical" } else { "add-not-associative" },
                        format!("{a:?} {b:?} {c:?}"));
                }
                // the value of a sum is the column-wise sum modulo the primes
                let ca = canon(&a);
                let cb = canon(&b);
                let cs = canon(&ab);
                for i in 0..8 {
                    if cs[i] != (ca[i] + cb[i]) % PRIMES[i] as u64 {
                        return fail(if anc { "sum-wrong-noncanonical" } else { "sum-wrong" },
                            format!("column {i}: {} + {} -> {}", ca[i], cb[i], cs[i]));
                    }
                }
                let mut x = a;
                x += b;
                x -= b;
                if canon(&x) != canon(&a) {
                    return fail("sub-not-inverse", "AddAssign/SubAssign".into());
                }
                if canon(&(a - a)) != [0u64; 8] {
                    return fail(if anc { "sub-not-inverse-noncanonical" } else { "sub-not-inverse" }, format!("{a:?} - itself = {:?}", a - a));
                }
                rep.count("law.addsub", 1);
            }
            4 => {
                // digest / hexdigest round trips
                let (a, _) = value(rng, false);
                h.bytes(&a.digest());
                nontrivial = true;
                desc = json!({"law": "roundtrip", "a": a.hexdigest()});
                if Setsum::from_digest(a.digest()) != a {
                    return fail("digest-roundtrip", format!("{a:?}"));
                }
                match Setsum::from_hexdigest(&a.hexdigest()) {
                    Some(b) if b == a => {}
                    other => return fail("hexdigest-roundtrip", format!("{a:?} -> {other:?}")),
                }
                if a.hexdigest() != hex(&a.digest()) {
                    return fail("hexdigest-roundtrip", "hexdigest is not hex(digest)".into());
                }
                // upper-case hex and malformed strings: a value or None, never a panic
                let up = a.hexdigest().to_uppercase();
                if let Some(b) = Setsum::from_hexdigest(&up) {
                    if b != a {
                        return fail("hexdigest-roundtrip", "uppercase hex decoded to another value".into());
                    }
                }
                let mut bad = a.hexdigest();
                bad.truncate(rng.usize(64));
                if Setsum::from_hexdigest(&bad).is_some() && bad.len() != 64 {
                    return fail("hexdigest-roundtrip", "short hex accepted".into());
                }
                rep.count("law.roundtrip", 1);
            }
            _ => {
                // sst::Setsum framing: put/del/insert agree with the raw vectored insert
                let key = item(rng);
                let ts = match rng.below(4) {
                    0 => 0,
                    1 => u64::MAX,
                    _ => rng.u64(),
                };
                let val = if rng.chance(1, 3) { Some(if rng.chance(1, 3) { vec![] } else { item(rng) }) } else { None };
                h.bytes(&key).u64(ts);
                nontrivial = true;
                desc = json!({"law": "kv-framing", "key": hex(&key), "ts": ts, "value": val.as_ref().map(|v| hex(v))});
                let mut via_api = sst::Setsum::default();
                let mut via_insert = sst::Setsum::default();
                let mut raw = Setsum::default();
                match &val {
                    Some(v) => {
                        via_api.put(&key, ts, v);
                        raw.insert_vectored(&[&[8u8], &key, &ts.to_le_bytes(), v]);
                    }
                    None => {
                        via_api.del(&key, ts);
                        raw.insert_vectored(&[&[9u8], &key, &ts.to_le_bytes()]);
                    }
                }
                via_insert.insert(sst::KeyValueRef { key: &key, timestamp: ts, value: val.as_deref() });
                if via_api.into_inner() != raw {
                    return fail("kv-framing", "put/del differs from the documented framing".into());
                }
                if via_insert.into_inner() != raw {
                    return fail("kv-framing-insert", format!("insert(KeyValueRef) differs from put/del for value {:?}", val.as_ref().map(|v| v.len())));
                }
                rep.count("law.kv_framing", 1);
            }
        }
        Ok(())
    });
    let r = match r {
        Ok(r) => r,
        Err(p) => Err((format!("panic:{}", panic_site(&p)), format!("panic: {p}"))),
    };
    (h.get(), nontrivial, desc, r)
}

pub fn run(args: &Args) {
    let mut rep = Report::new("c14", args);
    let cases = args.u64("cases", 20000);
    let (seed, shard) = (rep.seed, rep.shard);
    for case_no in 0..cases {
        let mut rng = Rng::derive(seed, "c14", shard, case_no);
        let (h, nontrivial, desc, res) = laws_case(&mut rng, &mut rep);
        rep.evaluations += 1;
        if nontrivial {
            rep.nontrivial.insert(h);
            if case_no % 1000 == 7 {
                rep.sample(desc.clone());
            }
        }
        if let Err((sig, msg)) = res {
            rep.violation("c14", &sig, json!({"case": desc, "message": msg,
                "replay": format!("vh c14 seed={seed} shard={shard} cases={}", case_no + 1)}));
        }
    }
    rep.finish(args);
}

/// True if some little-endian SHA3-256 word of the item is >= its column prime (the rare class
/// where the reduction modulo the prime actually changes the word).
pub fn has_boundary_word(item: &[u8]) -> bool {
    let mut hasher = Sha3_256::default();
    hasher.update(item);
    let d = hasher.finalize();
    (0..8).any(|i| u32::from_le_bytes([d[4 * i], d[4 * i + 1], d[4 * i + 2], d[4 * i + 3]]) >= PRIMES[i])
}

/// Emit cases (JSON lines) for the Python reference to recompute.
pub fn run_ref(args: &Args) {
    let mut rep = Report::new("c14ref", args);
    let cases = args.u64("cases", 2000);
    let mine_ms = args.u64("mine_ms", 0);
    let (seed, shard) = (rep.seed, rep.shard);
    let cases_path = args.str("cases_out", "");
    let mut out = std::io::BufWriter::new(std::fs::File::create(&cases_path).expect("cases_out"));
    // boundary items: committed corpus + freshly mined
    let mut boundary: Vec<Vec<u8>> = Vec::new();
    if let Some(p) = args.opt("corpus") {
        if let Ok(s) = std::fs::read_to_string(&p) {
            for l in s.lines() {
                if !l.is_empty() {
                    boundary.push(unhex(l.trim()));
                }
            }
        }
    }
    rep.count("boundary_items.corpus", boundary.len() as u64);
    let t0 = std::time::Instant::now();
    let mut ctr: u64 = 0;
    let mut mined = 0u64;
    let mut hashed = 0u64;
    while (t0.elapsed().as_millis() as u64) < mine_ms {
        for _ in 0..20000 {
            let it = format!("mine-{seed}-{shard}-{ctr}").into_bytes();
            ctr += 1;
            if has_boundary_word(&it) {
                boundary.push(it);
                mined += 1;
            }
        }
        hashed += 20000;
    }
    rep.count("boundary_items.mined", mined);
    if let Some(p) = args.opt("dump_boundary") {
        let n = boundary.len() - mined as usize;
        let lines: Vec<String> = boundary[n..].iter().map(|b| hex(b)).collect();
        std::fs::write(p, lines.join("\n") + "\n").unwrap();
    }
    rep.count("boundary_items.hashes_tried", hashed);
    let r = guarded(|| {
        for case_no in 0..cases {
            let mut rng = Rng::derive(seed, "c14ref", shard, case_no);
            let style = rng.below(4);
            let line = match style {
                0 | 1 => {
                    // multiset with inserts then removes, optionally containing boundary items
                    let n = 1 + rng.usize(10);
                    let mut items: Vec<Vec<u8>> = (0..n).map(|_| item(&mut rng)).collect();
                    let mut used_boundary = false;
                    if !boundary.is_empty() && (style == 1 || rng.chance(1, 3)) {
                        for _ in 0..1 + rng.usize(3) {
                            items.push(boundary[rng.usize(boundary.len())].clone());
                        }
                        used_boundary = true;
                    }
                    rng.shuffle(&mut items);
                    let mut s = Setsum::default();
                    for it in &items {
                        // vectored at a random split
                        let cut = rng.usize(it.len() + 1);
                        s.insert_vectored(&[&it[..cut], &it[cut..]]);
                    }
                    let k = rng.usize(items.len() + 1);
                    let mut removed: Vec<Vec<u8>> = Vec::new();
                    // remove a random sub-multiset (possibly including items never inserted)
                    for it in items.iter().take(k) {
                        s.remove(it);
                        removed.push(it.clone());
                    }
                    if rng.chance(1, 5) {
                        let ghost = item(&mut rng);
                        s.remove(&ghost);
                        removed.push(ghost);
                    }
                    if used_boundary {
                        rep.count("cases.with_boundary_item", 1);
                    }
                    rep.count("cases.multiset", 1);
                    json!({"t": "multiset", "inserted": items.iter().map(|i| hex(i)).collect::<Vec<_>>(),
                        "removed": removed.iter().map(|i| hex(i)).collect::<Vec<_>>(),
                        "digest": s.hexdigest(), "boundary": used_boundary})
                }
                2 => {
                    // key-value framing of sst::Setsum
                    let n = 1 + rng.usize(6);
                    let mut s = sst::Setsum::default();
                    let mut kvs = Vec::new();
                    for _ in 0..n {
                        let key = item(&mut rng);
                        let ts = if rng.chance(1, 4) { u64::MAX - rng.below(2) } else { rng.u64() >> rng.below(64) };
                        let val = if rng.chance(2, 3) { Some(if rng.chance(1, 4) { vec![] } else { item(&mut rng) }) } else { None };
                        if rng.chance(1, 2) {
                            s.insert(sst::KeyValueRef { key: &key, timestamp: ts, value: val.as_deref() });
                        } else {
                            match &val {
                                Some(v) => s.put(&key, ts, v),
                                None => s.del(&key, ts),
                            }
                        }
                        kvs.push(json!({"key": hex(&key), "ts": ts.to_string(), "value": val.as_ref().map(|v| hex(v))}));
                    }
                    rep.count("cases.kv", 1);
                    json!({"t": "kv", "entries": kvs, "digest": s.hexdigest()})
                }
                _ => {
                    // sums and differences of independently built setsums
                    let mut parts = Vec::new();
                    let mut acc = Setsum::default();
                    let mut signs = Vec::new();
                    for _ in 0..1 + rng.usize(4) {
                        let n = rng.usize(5);
                        let items: Vec<Vec<u8>> = (0..n).map(|_| item(&mut rng)).collect();
                        let mut s = Setsum::default();
                        for it in &items {
                            s.insert(it);
                        }
                        let plus = rng.chance(2, 3);
                        if plus { acc += s } else { acc -= s }
                        signs.push(plus);
                        parts.push(items.iter().map(|i| hex(i)).collect::<Vec<_>>());
                    }
                    rep.count("cases.algebra", 1);
                    json!({"t": "algebra", "parts": parts, "signs": signs, "digest": acc.hexdigest()})
                }
            };
            rep.evaluations += 1;
            let mut h = SHash::default();
            h.str(&line.to_string());
            rep.nontrivial.insert(h.get());
            if case_no % 500 == 3 {
                rep.sample(line.clone());
            }
            writeln!(out, "{line}").unwrap();
        }
    });
    if let Err(p) = r {
        rep.violation("c14", &format!("panic:{}", panic_site(&p)), json!({"message": format!("panic: {p}")}));
    }
    out.flush().unwrap();
    rep.finish(args);
}
