//! C13 — manifest edits are atomic and durable; reopening replays exactly those applied.
//!
//! `c13`      : (1) random edit sequences vs a BTreeSet/BTreeMap model, clean reopen, fragment
//!              chaining; (2) every truncation length of MANIFEST; (4) lock exclusion;
//!              (3) crash sweep: a child (`c13child`) applies the same deterministic sequence under
//!              the system-call shim and is killed before its n-th mutating call; the parent
//!              reopens the directory image (persistence models a and b).

use std::collections::{BTreeMap, BTreeSet};
use std::path::{Path, PathBuf};

use mani::{Edit, Manifest, ManifestIterator, ManifestOptions};
use serde_json::json;

use crate::crash;
use crate::util::*;

pub type State = (BTreeSet<String>, BTreeMap<char, String>);

#[derive(Clone, Debug)]
pub struct EditSpec {
    pub adds: Vec<String>,
    pub rms: Vec<String>,
    pub infos: Vec<(char, String)>,
}

fn gen_string(rng: &mut Rng, pool: &mut Vec<String>) -> String {
    if !pool.is_empty() && rng.chance(1, 3) {
        return rng.pick(pool).clone();
    }
    let s = match rng.below(16) {
        0 => String::new(),
        1 => " ".to_string(),
        2 => "+plus".to_string(),
        3 => "-minus".to_string(),
        4 => "--------".to_string(),
        5 => "trailing-cr\r".to_string(),
        6 => "mid\rcr".to_string(),
        7 => "caf\u{e9}".to_string(),
        8 => "x".repeat(1 + rng.usize(1500)),
        9 => "tab\there".to_string(),
        10 => format!("{:064x}", rng.u64()),
        11 => "a".to_string(),
        12 => "nul\0byte".to_string(),
        13 => "0123abcd+looks-like-crc".to_string(),
        _ => format!("sst-{:04}", rng.below(40)),
    };
    pool.push(s.clone());
    s
}

fn gen_edit(rng: &mut Rng, pool: &mut Vec<String>, hostile: bool) -> EditSpec {
    let mut e = EditSpec { adds: vec![], rms: vec![], infos: vec![] };
    let style = rng.below(10);
    let plain = |rng: &mut Rng, pool: &mut Vec<String>| -> String {
        if !pool.is_empty() && rng.chance(1, 2) {
            rng.pick(pool).clone()
        } else {
            let s = format!("sst-{:04}", rng.below(40));
            pool.push(s.clone());
            s
        }
    };
    let s = |rng: &mut Rng, pool: &mut Vec<String>| -> String {
        if hostile { gen_string(rng, pool) } else { plain(rng, pool) }
    };
    match style {
        0 => {} // empty edit
        1 => {
            // add and remove the same string in one edit
            let x = s(rng, pool);
            e.adds.push(x.clone());
            e.rms.push(x);
        }
        _ => {
            for _ in 0..rng.usize(4) {
                e.adds.push(s(rng, pool));
            }
            for _ in 0..rng.usize(3) {
                e.rms.push(s(rng, pool));
            }
            for _ in 0..rng.usize(3) {
                let keys: &[char] = if hostile {
                    &['I', 'O', 'D', 'L', 'M', '+', '-', ' ', '\u{e9}', '0', '\r']
                } else {
                    &['I', 'O', 'D', 'L', 'M']
                };
                let k = *rng.pick(keys);
                let v = if hostile { gen_string(rng, pool) } else { format!("{:016x}", rng.u64()) };
                e.infos.push((k, v));
            }
        }
    }
    e
}

/// Build the API edit; None if the API rejects any part (then the edit is not applied at all).
fn to_edit(spec: &EditSpec) -> Option<Edit> {
    let mut e = Edit::default();
    for a in &spec.adds {
        e.add(a).ok()?;
    }
    for r in &spec.rms {
        e.rm(r).ok()?;
    }
    for (k, v) in &spec.infos {
        e.info(*k, v).ok()?;
    }
    Some(e)
}

fn apply_model(state: &mut State, spec: &EditSpec) {
    for r in &spec.rms {
        state.0.remove(r);
    }
    for a in &spec.adds {
        state.0.insert(a.clone());
    }
    for (k, v) in &spec.infos {
        state.1.insert(*k, v.clone());
    }
}

fn state_of(m: &Manifest, keys: &[char]) -> State {
    let strs: BTreeSet<String> = m.strs().map(|s| s.to_string()).collect();
    let mut info = BTreeMap::new();
    for k in keys {
        if let Some(v) = m.info(*k) {
            info.insert(*k, v.to_string());
        }
    }
    (strs, info)
}

const ALL_KEYS: &[char] = &['I', 'O', 'D', 'L', 'M', '+', '-', ' ', '\u{e9}', '0', '\r'];

fn options(ratio: u64, fail_if_locked: bool) -> ManifestOptions {
    let mut args: Vec<String> = vec!["--log-rollover-ratio".into(), ratio.to_string()];
    if fail_if_locked {
        args.push("--fail-if-locked".into());
    }
    let argv: Vec<&str> = args.iter().map(|s| s.as_str()).collect();
    let (o, _free) = <ManifestOptions as arrrg::CommandLine>::from_arguments_relaxed("c13", &argv);
    o
}

fn show_state(s: &State) -> String {
    format!("strs={:?} info={:?}", s.0.iter().map(|x| show(x.as_bytes())).collect::<Vec<_>>(), s.1)
}

fn fail(sig: &str, msg: String) -> Result<(), (String, String)> {
    Err((sig.to_string(), msg))
}

fn fragments(root: &Path) -> Vec<(u64, PathBuf)> {
    let mut v = Vec::new();
    if let Ok(rd) = std::fs::read_dir(root) {
        for e in rd.flatten() {
            if let Some(id) = mani::extract_backup(e.path()) {
                v.push((id, e.path()));
            }
        }
    }
    v.sort();
    v
}

fn replay(path: &Path) -> Result<(Option<State>, State), String> {
    // returns (state after the first edit, state after all edits)
    let it = ManifestIterator::open(path).map_err(|e| e.to_string())?;
    let mut st: State = Default::default();
    let mut first = None;
    for e in it {
        let e = e.map_err(|e| e.to_string())?;
        for r in e.rmed() {
            st.0.remove(r);
        }
        for a in e.added() {
            st.0.insert(a.clone());
        }
        for k in ALL_KEYS {
            if let Some(v) = e.get_info(*k) {
                st.1.insert(*k, v.clone());
            }
        }
        if first.is_none() {
            first = Some(st.clone());
        }
    }
    Ok((first, st))
}

/// The deterministic edit sequence of a case (shared by parent and child).
pub fn sequence(seed: u64, shard: u64, case_no: u64, hostile: bool) -> (u64, Vec<EditSpec>, Vec<usize>) {
    let mut rng = Rng::derive(seed, "c13seq", shard, case_no);
    let ratio = *rng.pick(&[1u64, 2, 8]);
    let n = 3 + rng.usize(if hostile { 25 } else { 14 });
    let mut pool = Vec::new();
    let edits: Vec<EditSpec> = (0..n).map(|_| gen_edit(&mut rng, &mut pool, hostile)).collect();
    // positions after which the manifest is dropped and reopened
    let reopens: Vec<usize> = (0..n).filter(|_| rng.chance(1, 6)).collect();
    (ratio, edits, reopens)
}

fn sequence_case(seed: u64, shard: u64, case_no: u64, scratch: &Scratch, rep: &mut Report) -> (u64, bool, serde_json::Value, Result<(), (String, String)>) {
    let hostile = case_no % 2 == 0;
    let (ratio, edits, reopens) = sequence(seed, shard, case_no, hostile);
    let root = scratch.path.join(format!("mani-{case_no}"));
    let _ = std::fs::remove_dir_all(&root);
    let mut h = SHash::default();
    h.u64(ratio);
    for e in &edits {
        for a in &e.adds {
            h.str(a);
        }
        h.u64(0xaa);
        for r in &e.rms {
            h.str(r);
        }
        for (k, v) in &e.infos {
            h.u64(*k as u64).str(v);
        }
    }
    let mut rollovers = 0u64;
    let desc = json!({"edits": edits.len(), "ratio": ratio, "hostile_strings": hostile,
        "first_edits": edits.iter().take(3).map(|e| format!("+{:?} -{:?} i{:?}", e.adds.iter().map(|s| show(s.as_bytes())).collect::<Vec<_>>(), e.rms.iter().map(|s| show(s.as_bytes())).collect::<Vec<_>>(), e.infos.iter().map(|(k, v)| (k, show(v.as_bytes()))).collect::<Vec<_>>())).collect::<Vec<_>>()});
    let r = guarded(|| -> Result<(), (String, String)> {
        let mut model: State = Default::default();
        let mut m = Manifest::open(options(ratio, false), &root).map_err(|e| ("open-error".to_string(), format!("initial open: {e}")))?;
        for (i, spec) in edits.iter().enumerate() {
            match to_edit(spec) {
                None => rep.count("edits.rejected_by_api", 1),
                Some(e) => {
                    let before = fragments(&root).len();
                    if let Err(err) = m.apply(e) {
                        return fail("apply-error", format!("edit {i} failed without a fault: {err}"));
                    }
                    apply_model(&mut model, spec);
                    rep.count("edits.applied", 1);
                    if fragments(&root).len() > before {
                        rollovers += 1;
                    }
                }
            }
            let got = state_of(&m, ALL_KEYS);
            if got != model {
                return fail("memory-state-mismatch", format!("after edit {i}: {} vs model {}", show_state(&got), show_state(&model)));
            }
            if reopens.contains(&i) || i + 1 == edits.len() {
                drop(m);
                m = match Manifest::open(options(ratio, false), &root) {
                    Ok(m) => m,
                    Err(err) => {
                        // verified explanation for the defect class the design anticipated
                        let culprit = edits[..=i].iter().flat_map(|e| e.adds.iter().chain(e.rms.iter()).chain(e.infos.iter().map(|(_, v)| v)))
                            .any(|s| s.is_empty() || !s.is_ascii() || s.ends_with('\r'))
                            || edits[..=i].iter().flat_map(|e| e.infos.iter()).any(|(k, _)| !k.is_ascii() || *k == '+' || *k == '-');
                        return fail(
                            if culprit { "reopen-fails-after-accepted-unreadable-string" } else { "reopen-error" },
                            format!("reopen after edit {i} failed: {err}"),
                        );
                    }
                };
                rep.count("reopens", 1);
                let got = state_of(&m, ALL_KEYS);
                if got != model {
                    let culprit = edits[..=i].iter().flat_map(|e| e.infos.iter()).any(|(k, _)| !k.is_ascii() || *k == '+' || *k == '-');
                    return fail(
                        if culprit { "reopen-state-mismatch-info-key-plus-minus" } else { "reopen-state-mismatch" },
                        format!("after reopen at edit {i}: {} vs model {}", show_state(&got), show_state(&model)),
                    );
                }
            }
        }
        drop(m);
        // fragments chain without gaps; each starts with the roll-up of the state at its creation
        let frags = fragments(&root);
        let mut all: Vec<(u64, PathBuf)> = frags.clone();
        let next = frags.last().map(|f| f.0 + 1).unwrap_or(0);
        all.push((next, mani::MANIFEST(&root)));
        let mut prev: Option<(u64, State)> = None;
        for (id, path) in &all {
            let (first, last) = replay(path).map_err(|e| ("fragment-unreadable".to_string(), format!("{}: {e}", path.display())))?;
            if let Some((pid, pstate)) = &prev {
                if pid + 1 != *id {
                    return fail("fragment-gap", format!("fragment ids {pid} -> {id}"));
                }
                if first.as_ref() != Some(pstate) {
                    return fail("fragment-chain", format!("fragment {id} starts with {:?}, previous fragment ends with {}", first.as_ref().map(show_state), show_state(pstate)));
                }
            }
            prev = Some((*id, last));
            rep.count("fragments_checked", 1);
        }
        if prev.map(|p| p.1) != Some(model.clone()) {
            return fail("fragment-chain", "the newest file does not end in the model state".into());
        }
        let errs: Vec<String> = Manifest::verify(options(ratio, false), &root).map(|e| e.to_string()).collect();
        if !errs.is_empty() {
            return fail("verify-reports-errors", format!("Manifest::verify on a fault-free history: {errs:?}"));
        }
        Ok(())
    });
    let r = match r {
        Ok(r) => r,
        Err(p) => Err((format!("panic:{}", panic_site(&p)), format!("panic: {p}"))),
    };
    rep.count("rollovers", rollovers);
    let _ = std::fs::remove_dir_all(&root);
    (h.get(), rollovers > 0, desc, r)
}

/// (2) every truncation length of MANIFEST
fn truncation_case(seed: u64, shard: u64, case_no: u64, scratch: &Scratch, rep: &mut Report) -> (u64, bool, serde_json::Value, Result<(), (String, String)>) {
    let (ratio, edits, _) = sequence(seed, shard, case_no, false);
    let root = scratch.path.join(format!("trunc-{case_no}"));
    let _ = std::fs::remove_dir_all(&root);
    let mut h = SHash::default();
    h.u64(7).u64(case_no).u64(ratio);
    let mut cuts_inside = 0u64;
    let r = guarded(|| -> Result<(), (String, String)> {
        let mut states: Vec<State> = vec![Default::default()];
        {
            let mut m = Manifest::open(options(ratio, false), &root).map_err(|e| ("open-error".to_string(), format!("{e}")))?;
            let mut model: State = Default::default();
            for spec in &edits {
                if let Some(e) = to_edit(spec) {
                    m.apply(e).map_err(|e| ("apply-error".to_string(), format!("{e}")))?;
                    apply_model(&mut model, spec);
                    states.push(model.clone());
                }
            }
        }
        let bytes = std::fs::read(mani::MANIFEST(&root)).map_err(|e| ("io".to_string(), e.to_string()))?;
        h.bytes(&bytes);
        let other: Vec<(PathBuf, Vec<u8>)> = fragments(&root).into_iter().map(|(_, p)| (p.clone(), std::fs::read(&p).unwrap())).collect();
        for cut in 0..=bytes.len() {
            let img = scratch.path.join(format!("trunc-{case_no}-img"));
            let _ = std::fs::remove_dir_all(&img);
            std::fs::create_dir_all(&img).unwrap();
            for (p, b) in &other {
                std::fs::write(img.join(p.file_name().unwrap()), b).unwrap();
            }
            std::fs::write(mani::MANIFEST(&img), &bytes[..cut]).unwrap();
            rep.count("truncations", 1);
            match Manifest::open(options(ratio, false), &img) {
                Ok(m) => {
                    let got = state_of(&m, ALL_KEYS);
                    if !states.contains(&got) {
                        return fail("truncation-partial-edit", format!("MANIFEST cut at {cut} of {}: state {} is not a prefix state", bytes.len(), show_state(&got)));
                    }
                    rep.count("truncations.prefix_state", 1);
                    // the recovered manifest must behave: one more edit, one more reopen
                    let mut m = m;
                    let mut e = Edit::default();
                    e.add("after-recovery").unwrap();
                    if let Err(err) = m.apply(e) {
                        return fail("truncation-unusable-after-recovery", format!("MANIFEST cut at {cut}: apply after recovery failed: {err}"));
                    }
                    drop(m);
                    let mut want = got.clone();
                    want.0.insert("after-recovery".to_string());
                    match Manifest::open(options(ratio, false), &img) {
                        Ok(m2) if state_of(&m2, ALL_KEYS) == want => rep.count("truncations.continued_after_recovery", 1),
                        Ok(m2) => return fail("truncation-partial-edit-after-recovery", format!("MANIFEST cut at {cut}: after recovery + one edit + reopen the state is {} instead of {}", show_state(&state_of(&m2, ALL_KEYS)), show_state(&want))),
                        Err(err) => return fail("truncation-unusable-after-recovery", format!("MANIFEST cut at {cut}: reopen after recovery + one edit failed: {err}")),
                    }
                }
                Err(e) => {
                    if mani::error_code(&e) != Some(mani::CODE_CORRUPTION) {
                        return fail("truncation-other-error", format!("MANIFEST cut at {cut}: error is not an explicit corruption error: {e}"));
                    }
                    rep.count("truncations.corruption_error", 1);
                }
            }
            if cut < bytes.len() && (cut == 0 || bytes[cut - 1] != b'\n') {
                cuts_inside += 1;
            }
            let _ = std::fs::remove_dir_all(&img);
        }
        Ok(())
    });
    let r = match r {
        Ok(r) => r,
        Err(p) => Err((format!("panic:{}", panic_site(&p)), format!("panic: {p}"))),
    };
    rep.count("truncations.inside_a_line", cuts_inside);
    let _ = std::fs::remove_dir_all(&root);
    (h.get(), cuts_inside > 0, json!({"truncation_sweep_of_case": case_no, "ratio": ratio}), r)
}

/// (4) lock exclusion between processes
fn lock_case(scratch: &Scratch, rep: &mut Report, case_no: u64) -> Result<(), (String, String)> {
    let root = scratch.path.join(format!("lock-{case_no}"));
    let _ = std::fs::remove_dir_all(&root);
    let held = Manifest::open(options(2, true), &root).map_err(|e| ("open-error".to_string(), format!("{e}")))?;
    // another process tries to open the same manifest with fail_if_locked
    let exe = std::env::current_exe().unwrap();
    let out = std::process::Command::new(exe)
        .arg("c13lock")
        .arg(format!("root={}", root.display()))
        .output()
        .map_err(|e| ("spawn".to_string(), e.to_string()))?;
    let text = String::from_utf8_lossy(&out.stdout).to_string();
    rep.count("lock_probes", 1);
    if !text.contains("LOCK-NOT-OBTAINED") {
        return fail("lock-not-exclusive", format!("second process opened a locked manifest: {text}"));
    }
    drop(held);
    let out = std::process::Command::new(std::env::current_exe().unwrap())
        .arg("c13lock")
        .arg(format!("root={}", root.display()))
        .output()
        .map_err(|e| ("spawn".to_string(), e.to_string()))?;
    let text = String::from_utf8_lossy(&out.stdout).to_string();
    if !text.contains("LOCK-OBTAINED") {
        return fail("lock-stuck", format!("manifest not openable after the holder dropped it: {text}"));
    }
    let _ = std::fs::remove_dir_all(&root);
    Ok(())
}

pub fn run_lock(args: &Args) {
    let root = args.str("root", "");
    match Manifest::open(options(2, true), &root) {
        Ok(_) => println!("LOCK-OBTAINED"),
        Err(e) => {
            if mani::error_code(&e) == Some(mani::CODE_LOCK_NOT_OBTAINED) {
                println!("LOCK-NOT-OBTAINED");
            } else {
                println!("ERROR {e}");
            }
        }
    }
}

/// child of the crash sweep: apply the case's sequence, acknowledging each edit
pub fn run_child(args: &Args) {
    let seed = args.u64("seed", 1);
    let shard = args.u64("shard", 0);
    let case_no = args.u64("case", 0);
    let root = args.str("root", "");
    let mut acks = crash::AckLog::create(&args.str("acks", ""));
    let (ratio, edits, reopens) = sequence(seed, shard, case_no, false);
    let mut m = match Manifest::open(options(ratio, false), &root) {
        Ok(m) => m,
        Err(e) => {
            acks.note(&format!("open-error {e}"));
            std::process::exit(3);
        }
    };
    acks.note("opened");
    for (i, spec) in edits.iter().enumerate() {
        if let Some(e) = to_edit(spec) {
            acks.invoke(i as u64);
            match m.apply(e) {
                Ok(()) => acks.ack(i as u64),
                Err(err) => {
                    acks.error(i as u64, &err.to_string());
                    // a failed apply poisons the manifest: stop, as a caller would
                    std::process::exit(0);
                }
            }
        }
        if reopens.contains(&i) {
            drop(m);
            m = match Manifest::open(options(ratio, false), &root) {
                Ok(m) => m,
                Err(e) => {
                    acks.note(&format!("reopen-error {e}"));
                    std::process::exit(0);
                }
            };
        }
    }
}

fn crash_case(seed: u64, shard: u64, case_no: u64, scratch: &Scratch, rep: &mut Report, max_points: usize) -> (u64, bool, serde_json::Value, Result<(), (String, String)>) {
    let (ratio, edits, _) = sequence(seed, shard, case_no, false);
    // prefix states by edit index: states[i] = state before edit i is applied (API-accepted only)
    let mut states: Vec<State> = vec![Default::default()];
    let mut model: State = Default::default();
    let mut applied_idx: Vec<u64> = Vec::new();
    for (i, spec) in edits.iter().enumerate() {
        if to_edit(spec).is_some() {
            apply_model(&mut model, spec);
            states.push(model.clone());
            applied_idx.push(i as u64);
        }
    }
    let mut h = SHash::default();
    h.u64(13).u64(case_no).u64(ratio).u64(edits.len() as u64);
    let mut points_inside = 0u64;
    let r = (|| -> Result<(), (String, String)> {
        let child_args = vec!["c13child".to_string(), format!("seed={seed}"), format!("shard={shard}"), format!("case={case_no}")];
        let sw = crash::Sweep::new(scratch, &format!("c13-{case_no}"), child_args);
        let total = sw.count_calls().map_err(|e| ("inconclusive".to_string(), e))?;
        rep.count("crash.calls_in_history", total);
        let points = crash::pick_points(total, max_points, seed ^ case_no);
        for (pi, n) in points.iter().enumerate() {
            for model_b in [false, true] {
                let run = sw.crash_at(*n, model_b).map_err(|e| ("inconclusive".to_string(), e))?;
                rep.count("crash.points", 1);
                if model_b {
                    rep.count("crash.points_model_b", 1);
                    rep.count("crash.bytes_dropped_model_b", run.bytes_dropped);
                }
                // snapshot the image before recovery touches it (for the torn-staging sweep below)
                let tmp_snapshot: Option<(Vec<u8>, Vec<(PathBuf, Vec<u8>)>)> = {
                    let tmp = mani::TEMPORARY(&run.root);
                    if !model_b && tmp.is_file() {
                        let base = std::fs::read_dir(&run.root).map(|rd| rd.flatten().filter(|e| e.path().is_file()).map(|e| (e.path(), std::fs::read(e.path()).unwrap_or_default())).collect()).unwrap_or_default();
                        Some((std::fs::read(&tmp).unwrap_or_default(), base))
                    } else {
                        None
                    }
                };
                let acked = run.acks.last_ack().map(|a| applied_idx.iter().position(|x| *x == a).unwrap() + 1).unwrap_or(0);
                let inflight = run.acks.in_flight().is_some();
                if inflight {
                    points_inside += 1;
                }
                let res = guarded(|| Manifest::open(options(ratio, false), &run.root).map(|m| state_of(&m, ALL_KEYS)));
                match res {
                    Err(p) => return fail(&format!("crash:reopen-panic:{}", panic_site(&p)), format!("crash before call {n} (model {}): reopen panicked: {p}", if model_b { "b" } else { "a" })),
                    Ok(Err(e)) => {
                        if mani::error_code(&e) != Some(mani::CODE_CORRUPTION) {
                            return fail("crash:reopen-other-error", format!("crash before call {n}: reopen failed with a non-corruption error: {e}"));
                        }
                        rep.count("crash.reopen_corruption_error", 1);
                    }
                    Ok(Ok(got)) => {
                        let ok = got == states[acked] || (inflight && acked + 1 < states.len() && got == states[acked + 1]);
                        if !ok {
                            let partial = !states.contains(&got);
                            return fail(
                                if partial { "crash:partial-edit" } else if states.iter().position(|s| *s == got).unwrap() < acked { "crash:lost-acknowledged-edit" } else { "crash:future-edit" },
                                format!("crash before call {n} of {total} (model {}), {acked} edits acknowledged, in flight: {inflight}; reopened state {} ; expected {}", if model_b { "b" } else { "a" }, show_state(&got), show_state(&states[acked])),
                            );
                        }
                        rep.count("crash.reopen_ok", 1);
                        // the recovered manifest must be usable: one more edit, one more reopen
                        if pi % 4 == 0 {
                            let res2 = guarded(|| -> Result<State, String> {
                                let mut m = Manifest::open(options(ratio, false), &run.root).map_err(|e| e.to_string())?;
                                let mut e = Edit::default();
                                e.add("after-recovery").map_err(|e| e.to_string())?;
                                m.apply(e).map_err(|e| e.to_string())?;
                                drop(m);
                                let m = Manifest::open(options(ratio, false), &run.root).map_err(|e| e.to_string())?;
                                Ok(state_of(&m, ALL_KEYS))
                            });
                            let mut want = got.clone();
                            want.0.insert("after-recovery".to_string());
                            match res2 {
                                Ok(Ok(s)) if s == want => rep.count("crash.continued_after_recovery", 1),
                                other => return fail("crash:unusable-after-recovery", format!("crash before call {n}: {other:?}")),
                            }
                        }
                    }
                }
                // a crash inside a rollover leaves MANIFEST.tmp behind; sweep its truncation lengths
                // too (a torn staging file), then recover, edit once more and reopen
                if let Some((tbytes, base)) = tmp_snapshot {
                    let step = (tbytes.len() / 40).max(1);
                    for cut in (0..tbytes.len()).step_by(step) {
                        let img = run.root.with_extension("torn");
                        let _ = std::fs::remove_dir_all(&img);
                        std::fs::create_dir_all(&img).unwrap();
                        for (p, b) in &base {
                            std::fs::write(img.join(p.file_name().unwrap()), b).unwrap();
                        }
                        std::fs::write(mani::TEMPORARY(&img), &tbytes[..cut]).unwrap();
                        rep.count("crash.torn_staging_images", 1);
                        let res = guarded(|| -> Result<(State, State), String> {
                            let mut m = Manifest::open(options(ratio, false), &img).map_err(|e| format!("recovery open: {e}"))?;
                            let got = state_of(&m, ALL_KEYS);
                            let mut e = Edit::default();
                            e.add("after-recovery").map_err(|e| e.to_string())?;
                            m.apply(e).map_err(|e| format!("apply after recovery: {e}"))?;
                            drop(m);
                            let m = Manifest::open(options(ratio, false), &img).map_err(|e| format!("reopen after recovery and one edit: {e}"))?;
                            Ok((got, state_of(&m, ALL_KEYS)))
                        });
                        let _ = std::fs::remove_dir_all(&img);
                        match res {
                            Ok(Ok((got, after))) => {
                                let mut want = got.clone();
                                want.0.insert("after-recovery".to_string());
                                if after != want || !states.contains(&got) {
                                    return fail("crash:torn-staging-partial-edit", format!("crash before call {n}, MANIFEST.tmp torn at {cut}: recovered {} then {}", show_state(&got), show_state(&after)));
                                }
                            }
                            Ok(Err(e)) => return fail("crash:torn-staging-unusable-after-recovery", format!("crash before call {n}, MANIFEST.tmp torn at {cut} of {}: {e}", tbytes.len())),
                            Err(p) => return fail(&format!("crash:reopen-panic:{}", panic_site(&p)), format!("torn staging file: {p}")),
                        }
                    }
                }
                run.cleanup();
            }
        }
        Ok(())
    })();
    (h.get(), points_inside > 0, json!({"crash_sweep_of_case": case_no, "ratio": ratio, "edits": edits.len()}), r)
}

pub fn run(args: &Args) {
    let mut rep = Report::new("c13", args);
    rep.max_samples = 4;
    let cases = args.u64("cases", 60);
    let trunc_cases = args.u64("trunc_cases", 3);
    let crash_cases = args.u64("crash_cases", 2);
    let max_points = args.u64("crash_points", 60) as usize;
    let (seed, shard) = (rep.seed, rep.shard);
    let scratch = Scratch::new("c13");
    let only = args.opt("case").map(|c| c.parse::<u64>().unwrap());
    let record = |rep: &mut Report, what: &str, case_no: u64, h: u64, nontrivial: bool, desc: serde_json::Value, res: Result<(), (String, String)>| {
        rep.evaluations += 1;
        if nontrivial {
            rep.nontrivial.insert(h);
            if case_no % 7 == 0 {
                rep.sample(desc.clone());
            }
        }
        if let Err((sig, msg)) = res {
            if sig == "inconclusive" {
                rep.inconclusive.push(msg);
            } else {
                rep.violation("c13", &sig, json!({"case": desc, "message": msg,
                    "replay": format!("vh c13 seed={seed} shard={shard} {what}={} case={case_no}", case_no + 1)}));
            }
        }
    };
    for case_no in 0..cases {
        if only.is_some() && only != Some(case_no) {
            continue;
        }
        let (h, nt, desc, res) = sequence_case(seed, shard, case_no, &scratch, &mut rep);
        record(&mut rep, "cases", case_no, h, nt, desc, res);
    }
    for case_no in 0..trunc_cases {
        if only.is_some() && only != Some(case_no) {
            continue;
        }
        let (h, nt, desc, res) = truncation_case(seed, shard, 1000 + case_no, &scratch, &mut rep);
        record(&mut rep, "trunc_cases", case_no, h, nt, desc, res);
    }
    for case_no in 0..crash_cases {
        if only.is_some() && only != Some(case_no) {
            continue;
        }
        let (h, nt, desc, res) = crash_case(seed, shard, 2000 + case_no, &scratch, &mut rep, max_points);
        record(&mut rep, "crash_cases", case_no, h, nt, desc, res);
    }
    if only.is_none() {
        let r = guarded(|| lock_case(&scratch, &mut rep, 0));
        let r = match r {
            Ok(r) => r,
            Err(p) => Err((format!("panic:{}", panic_site(&p)), format!("panic: {p}"))),
        };
        record(&mut rep, "lock", 0, fnv1a(b"lock") ^ shard, false, json!({"lock": true}), r);
    }
    rep.finish(args);
}
