//! C04, rejection half: the offline verifier must reject a history in which one transaction's
//! added, removed or discarded data was altered.
//!
//! A scripted single-stepped store history (flushes, merging compactions, GCs, reopens; no verifier
//! pass, so every fragment and every retired file is still there) produces a directory the
//! verifier accepts.  Each tamper is applied to a fresh copy and LsmVerifier::verify (and, for
//! manifest tampers, ManifestVerifier::verify of the fragment) is run on it:
//!   T1  one hex digit of one recorded digest (added / removed / I / O / D of a transaction, or a
//!       digest of a fragment's roll-up) is changed and the line's CRC recomputed;
//!   T2  one output file of one rewriting transaction is rebuilt with one entry dropped, one value
//!       modified, or one entry manufactured (a copy of an entry under a new timestamp), keeping
//!       its name.
//! Only fragments the verifier actually processes (all but the two newest) are tampered with.
//! Verdicts: error other than backoff = rejected; Ok = accepted (violation); backoff = the verifier
//! is waiting for a file and has not judged (counted).

use std::collections::BTreeMap;
use std::path::{Path, PathBuf};

use lsmtk::{KeyValueStore, LsmVerifier, ManifestVerifier, WriteBatch};
use serde_json::json;
use sst::{Builder, SstBuilder, SstOptions};

use crate::e1::{dump_sst, fragment_paths};
use crate::e2::{Step, script};
use crate::r#gen::Entry;
use crate::util::*;

fn copy_tree(from: &Path, to: &Path) -> std::io::Result<()> {
    std::fs::create_dir_all(to)?;
    for e in std::fs::read_dir(from)? {
        let e = e?;
        let (p, q) = (e.path(), to.join(e.file_name()));
        if e.file_type()?.is_dir() {
            copy_tree(&p, &q)?;
        } else {
            std::fs::copy(&p, &q)?;
        }
    }
    Ok(())
}

/// One line of a manifest fragment: (action, payload) or the separator.
#[derive(Clone, Debug)]
enum Line {
    Sep,
    Rec(char, String),
}

fn parse_fragment(bytes: &[u8]) -> Option<Vec<Line>> {
    let text = std::str::from_utf8(bytes).ok()?;
    let mut out = Vec::new();
    for l in text.lines() {
        if l == "--------" {
            out.push(Line::Sep);
        } else if l.len() > 9 {
            let action = l[8..].chars().next()?;
            out.push(Line::Rec(action, l[8 + action.len_utf8()..].to_string()));
        } else {
            return None;
        }
    }
    Some(out)
}

fn render_fragment(lines: &[Line]) -> Vec<u8> {
    let mut out = String::new();
    for l in lines {
        match l {
            Line::Sep => out.push_str("--------\n"),
            Line::Rec(a, s) => {
                let body = format!("{a}{s}");
                out.push_str(&format!("{:08x}{body}\n", crc32c::crc32c(body.as_bytes())));
            }
        }
    }
    out.into_bytes()
}

fn bump_digit(s: &str, pos: usize) -> String {
    let mut b: Vec<u8> = s.bytes().collect();
    let p = pos % b.len().max(1);
    let d = (b[p] as char).to_digit(16).unwrap_or(0);
    b[p] = std::char::from_digit((d + 1) % 16, 16).unwrap() as u8;
    String::from_utf8(b).unwrap()
}

/// The verifier's own words for why it rejected, as a counter label.
fn reason(e: &str) -> String {
    for key in ["context \"", "what \"", "message \""] {
        if let Some(rest) = e.split(key).last().filter(|_| e.contains(key)) {
            let txt: String = rest.split('"').next().unwrap_or("").chars().take(60).collect();
            let txt: String = txt.split(':').next().unwrap_or("").trim().replace(' ', "_");
            if !txt.is_empty() {
                return txt;
            }
        }
    }
    crate::e1::err_code(e).replace('/', "_")
}

enum Verdict {
    Rejected(String),
    Accepted,
    Backoff,
    Panicked(String),
}

fn run_verifier(opts: lsmtk::LsmtkOptions) -> Verdict {
    let r = guarded(|| LsmVerifier::open(opts).and_then(|mut v| v.verify()));
    match r {
        Err(p) => Verdict::Panicked(p),
        Ok(Ok(())) => Verdict::Accepted,
        Ok(Err(e)) => {
            if lsmtk::error_code(&e) == Some(lsmtk::CODE_BACKOFF) {
                Verdict::Backoff
            } else {
                Verdict::Rejected(e.to_string())
            }
        }
    }
}


/// Rename a file in the books (every + and - line of every fragment) and, if asked, recompute
/// D = removed - added, I = previous O, O = I - D for every transaction.  Returns false when a
/// fragment cannot be rewritten.
fn rewrite_books(work: &Path, name: &str, new_name: &str, consistent: bool) -> bool {
    let all: Vec<(u64, PathBuf)> = fragment_paths(&work);
    let mut prev_o: Option<setsum::Setsum> = None;
    let mut prev_id = (String::new(), String::new());
    let mut broken = false;
    for (_, fp) in &all {
        let Some(mut lines) = std::fs::read(fp).ok().and_then(|b| parse_fragment(&b)) else {
            broken = true;
            break;
        };
        for l in lines.iter_mut() {
            if let Line::Rec(a, s) = l {
                if (*a == '+' || *a == '-') && s == name {
                    *s = new_name.to_string();
                }
            }
        }
        if consistent {
            // recompute D = removed - added, I = previous O, O = I - D for every transaction
            let mut start = 0usize;
            let mut tx = 0usize;
            for li in 0..lines.len() {
                if !matches!(lines[li], Line::Sep) {
                    continue;
                }
                let range = start..li;
                let mut d = setsum::Setsum::default();
                for l in &lines[range.clone()] {
                    if let Line::Rec(a, s) = l {
                        if let Some(x) = setsum::Setsum::from_hexdigest(s) {
                            if *a == '+' {
                                d -= x;
                            } else if *a == '-' {
                                d += x;
                            }
                        }
                    }
                }
                let get = |lines: &Vec<Line>, c: char| -> Option<String> {
                    lines[range.clone()].iter().find_map(|l| match l {
                        Line::Rec(a, s) if *a == c => Some(s.clone()),
                        _ => None,
                    })
                };
                let (i_new, o_new, d_new) = if tx == 0 {
                    // a roll-up carries the books forward
                    let o = prev_o.or_else(|| get(&lines, 'O').and_then(|x| setsum::Setsum::from_hexdigest(&x)));
                    let Some(o) = o else {
                        start = li + 1;
                        tx += 1;
                        continue;
                    };
                    let (pi, pd) = if prev_id.0.is_empty() { (get(&lines, 'I').unwrap_or_default(), get(&lines, 'D').unwrap_or_default()) } else { prev_id.clone() };
                    (pi, o, pd)
                } else {
                    let Some(i) = prev_o else {
                        broken = true;
                        break;
                    };
                    let o = i - d;
                    let r = (i.hexdigest(), o, d.hexdigest());
                    prev_id = (r.0.clone(), r.2.clone());
                    r
                };
                prev_o = Some(o_new);
                for l in lines[range.clone()].iter_mut() {
                    if let Line::Rec(a, s) = l {
                        match *a {
                            'I' => *s = i_new.clone(),
                            'O' => *s = o_new.hexdigest(),
                            'D' => *s = d_new.clone(),
                            _ => {}
                        }
                    }
                }
                start = li + 1;
                tx += 1;
            }
        }
        if std::fs::write(fp, render_fragment(&lines)).is_err() {
            broken = true;
        }
    }
    !broken
}

pub fn run(args: &Args) {
    let mut rep = Report::new("c04t", args);
    rep.max_samples = 3;
    let cases = args.u64("cases", 3);
    let budget = args.u64("budget", 200) as usize;
    let (seed, shard) = (rep.seed, rep.shard);
    let scratch = Scratch::new("c04t");
    let only = args.opt("case").map(|c| c.parse::<u64>().unwrap());
    quiet_panics();
    lsmtk::verif::set_single_step(true);
    for case_no in 0..cases {
        if only.is_some() && only != Some(case_no) {
            continue;
        }
        let mut rng = Rng::derive(seed, "c04t", shard, case_no);
        let mut sc = script(seed ^ 0xC04, shard, case_no, 10 + rng.below(8));
        sc.cfg.mani_ratio = *rng.pick(&[1u64, 1, 2]);
        let base = scratch.path.join(format!("base-{case_no}"));
        let _ = std::fs::remove_dir_all(&base);
        let base_s = base.to_string_lossy().to_string();
        let built = guarded(|| -> Result<(), String> {
            let mut kvs = KeyValueStore::open(sc.cfg.options(&base_s)).map_err(|e| e.to_string())?;
            for step in &sc.steps {
                match step {
                    Step::Write(ops) => {
                        let mut wb = WriteBatch::with_capacity(ops.len());
                        for (k, v) in ops {
                            match v {
                                Some(v) => wb.put(k, v),
                                None => wb.del(k),
                            }
                        }
                        kvs.write(wb).map_err(|e| e.to_string())?;
                    }
                    Step::Flush => {
                        let tree = kvs.verif_tree();
                        let mut guard = 0;
                        while tree.verif_should_stall() && guard < 100 {
                            guard += 1;
                            kvs.compaction_thread().map_err(|e| e.to_string())?;
                        }
                        if !tree.verif_should_stall() && kvs.verif_request_flush() {
                            kvs.memtable_thread().map_err(|e| e.to_string())?;
                        }
                    }
                    Step::Compact => kvs.compaction_thread().map_err(|e| e.to_string())?,
                    Step::Verify => {}
                    Step::Reopen => {
                        drop(kvs);
                        kvs = KeyValueStore::open(sc.cfg.options(&base_s)).map_err(|e| e.to_string())?;
                        // stop at a tree with the known recovery defect: later compactions assert on it
                        let mut h = crate::e1::History::attach(&base, sc.cfg.clone(), sc.keys.clone());
                        h.levels_override = Some(kvs.verif_tree().verif_levels());
                        if h.check_structure(true).is_err() {
                            break;
                        }
                    }
                }
            }
            drop(kvs);
            Ok(())
        });
        if !matches!(built, Ok(Ok(()))) {
            rep.count("build_failed", 1);
            continue;
        }
        // the fragments the verifier will process: all but the two newest
        let frags: Vec<(u64, PathBuf)> = fragment_paths(&base);
        if frags.len() < 3 {
            rep.count("cases_with_too_few_fragments", 1);
            continue;
        }
        let processed: Vec<(u64, PathBuf)> = frags[..frags.len() - 2].to_vec();
        let work = scratch.path.join(format!("work-{case_no}"));
        let work_s = work.to_string_lossy().to_string();
        let fresh = |work: &Path| -> bool {
            let _ = std::fs::remove_dir_all(work);
            copy_tree(&base, work).is_ok()
        };
        // the untampered directory must be accepted
        if !fresh(&work) {
            continue;
        }
        match run_verifier(sc.cfg.options(&work_s)) {
            Verdict::Accepted => rep.count("pristine_directories_accepted", 1),
            Verdict::Backoff => {
                rep.count("pristine_directories_backoff", 1);
                continue;
            }
            Verdict::Rejected(e) => {
                // the acceptance half is judged by the E1 ledger monitor; here it only disqualifies the case
                rep.count("pristine_directories_rejected", 1);
                rep.notes.insert(format!("pristine_rejected_{case_no}"), json!(e));
                continue;
            }
            Verdict::Panicked(p) => {
                rep.violation("c04t", &format!("verifier-panic:{}", panic_site(&p)), json!({"case": case_no, "message": p}));
                continue;
            }
        }
        // the harness' own recomputation of the books must be neutral: with nothing renamed, the
        // rewritten directory is accepted as well (otherwise rejections would prove nothing)
        if !fresh(&work) {
            continue;
        }
        if !rewrite_books(&work, "-", "-", true) || !matches!(run_verifier(sc.cfg.options(&work_s)), Verdict::Accepted) {
            rep.inconclusive.push(format!("case {case_no}: recomputing the books without any change does not give a directory the verifier accepts"));
            continue;
        }
        rep.count("neutral_rewrites_accepted", 1);
        // enumerate tampers
        #[derive(Clone)]
        enum Tamper {
            Digit { frag: PathBuf, line: usize, what: String, rollup: bool },
            File { name: String, how: &'static str, gc: bool, books: &'static str, inputs: Vec<String> },
        }
        let mut tampers: Vec<Tamper> = Vec::new();
        let mut rewriting = 0u64;
        let mut gcs = 0u64;
        let mut seen_added: std::collections::HashSet<String> = std::collections::HashSet::new();
        for (_, p) in &processed {
            let bytes = std::fs::read(p).unwrap_or_default();
            let Some(lines) = parse_fragment(&bytes) else { continue };
            let mut tx = 0usize;
            let mut cur_adds: Vec<String> = Vec::new();
            let mut cur_rms = 0usize;
            let mut cur_rm_names: Vec<String> = Vec::new();
            let mut cur_d_zero = true;
            for (li, l) in lines.iter().enumerate() {
                match l {
                    Line::Sep => {
                        if tx > 0 && cur_rms > 0 {
                            rewriting += 1;
                            if !cur_d_zero {
                                gcs += 1;
                            }
                            for a in &cur_adds {
                                // the transaction must be where this file comes into being: a file that
                                // existed before (same contents, same name) or that the transaction also
                                // removes is not this transaction's output alone
                                if seen_added.contains(a) || cur_rm_names.contains(a) {
                                    continue;
                                }
                                for how in ["drop-entry", "modify-value", "manufacture-entry"] {
                                    for books in ["name-kept", "stale-books", "consistent-books"] {
                                        tampers.push(Tamper::File { name: a.clone(), how, gc: !cur_d_zero, books, inputs: cur_rm_names.clone() });
                                    }
                                }
                            }
                        }
                        tx += 1;
                        for a in &cur_adds {
                            seen_added.insert(a.clone());
                        }
                        cur_adds.clear();
                        cur_rm_names.clear();
                        cur_rms = 0;
                        cur_d_zero = true;
                    }
                    Line::Rec(a, s) => {
                        let is_digest = s.len() == 64 && s.bytes().all(|c| c.is_ascii_hexdigit());
                        if !is_digest {
                            continue;
                        }
                        let what = match a {
                            '+' => "added",
                            '-' => "removed",
                            'I' => "input",
                            'O' => "output",
                            'D' => "discard",
                            _ => continue,
                        };
                        if *a == '+' {
                            cur_adds.push(s.clone());
                        }
                        if *a == '-' {
                            cur_rms += 1;
                            cur_rm_names.push(s.clone());
                        }
                        if *a == 'D' && s.bytes().any(|c| c != b'0') {
                            cur_d_zero = false;
                        }
                        tampers.push(Tamper::Digit { frag: p.clone(), line: li, what: what.to_string(), rollup: tx == 0 });
                    }
                }
            }
        }
        rep.count("transactions.rewriting_in_processed_fragments", rewriting);
        rep.count("transactions.gc_in_processed_fragments", gcs);
        let mut hh = SHash::default();
        hh.u64(seed).u64(shard).u64(case_no).u64(tampers.len() as u64);
        if rewriting > 0 {
            rep.nontrivial.insert(hh.get());
        }
        if rep.want_sample() {
            rep.sample(json!({"case": case_no, "fragments": frags.len(), "fragments_the_verifier_processes": processed.len(), "rewriting_transactions": rewriting, "gc_transactions": gcs, "tampers_enumerated": tampers.len(), "config": sc.cfg.json()}));
        }
        rng.shuffle(&mut tampers);
        // all file tampers first (they are few), then digits up to the budget
        tampers.sort_by_key(|t| match t {
            Tamper::File { .. } => 0,
            Tamper::Digit { rollup: false, .. } => 1,
            Tamper::Digit { what, .. } if what == "output" => 2,
            Tamper::Digit { .. } => 3,
        });
        for t in tampers.iter().take(budget) {
            if !fresh(&work) {
                continue;
            }
            let replay = format!("vh c04t seed={seed} shard={shard} cases={} case={case_no}", case_no + 1);
            match t {
                Tamper::Digit { frag, line, what, rollup } => {
                    let wf = work.join(frag.strip_prefix(&base).unwrap());
                    let bytes = std::fs::read(&wf).unwrap_or_default();
                    let Some(mut lines) = parse_fragment(&bytes) else { continue };
                    let before = match &lines[*line] {
                        Line::Rec(_, s) => s.clone(),
                        _ => continue,
                    };
                    let pos = rng.usize(64);
                    let after = bump_digit(&before, pos);
                    if let Line::Rec(_, s) = &mut lines[*line] {
                        *s = after.clone();
                    }
                    if std::fs::write(&wf, render_fragment(&lines)).is_err() {
                        continue;
                    }
                    rep.evaluations += 1;
                    let class = format!("digit:{}{what}", if *rollup { "rollup-" } else { "" });
                    rep.count(&format!("tampers.{class}"), 1);
                    let v = run_verifier(sc.cfg.options(&work_s));
                    let mv = guarded(|| ManifestVerifier::open().and_then(|m| m.verify(&wf)).is_ok());
                    let detail = json!({"case": case_no, "fragment": frag.file_name().map(|x| x.to_string_lossy().to_string()), "line": line, "digit": pos % 64, "before": before, "after": after, "replay": replay});
                    match v {
                        Verdict::Rejected(e) => {
                            rep.count("verdict.rejected", 1);
                            rep.count(&format!("rejected_because.{}", reason(&e)), 1);
                        }
                        Verdict::Backoff => rep.count("verdict.backoff_not_judged", 1),
                        Verdict::Accepted if *rollup && what != "output" => {
                            // a roll-up is not a transaction: its I and D are carried copies the verifier
                            // documents as ignored, its list repeats the state; recorded, not judged
                            rep.count(&format!("observed.accepted_rollup_{what}_digit"), 1);
                        }
                        Verdict::Accepted => {
                            rep.violation("c04t", &format!("tamper-accepted:{class}"), json!({"message": format!("LsmVerifier::verify accepts a directory in which one digit of a recorded {what} digest was changed"), "detail": detail}));
                        }
                        Verdict::Panicked(p) => rep.violation("c04t", &format!("verifier-panic:{}", panic_site(&p)), json!({"message": p, "detail": detail})),
                    }
                    // the manifest-only verifier judges I/O/D and the added/removed algebra of real transactions
                    if !*rollup {
                        match mv {
                            Ok(true) => rep.violation("c04t", &format!("manifest-verifier-accepts:{class}"), json!({"message": format!("ManifestVerifier::verify accepts a fragment in which one digit of a recorded {what} digest was changed"), "detail": detail})),
                            Ok(false) => rep.count("verdict.manifest_verifier_rejected", 1),
                            Err(p) => rep.violation("c04t", &format!("verifier-panic:{}", panic_site(&p)), json!({"message": p, "detail": detail})),
                        }
                    }
                }
                Tamper::File { name, how, gc, books, inputs } => {
                    let in_sst = lsmtk::SST_ROOT(&work).join(format!("{name}.sst"));
                    let in_trash = lsmtk::TRASH_ROOT(&work).join(format!("{name}.sst"));
                    let path = if in_trash.is_file() { in_trash } else { in_sst };
                    let Ok(dump) = dump_sst(&path) else {
                        rep.count("tampers.file_not_found", 1);
                        continue;
                    };
                    let mut entries: Vec<Entry> = dump.entries.clone();
                    if entries.is_empty() {
                        continue;
                    }
                    let mut i = rng.usize(entries.len());
                    if *how == "drop-entry" && *books == "consistent-books" {
                        // drop something every policy must keep: the newest version of a key, when it is a value
                        // (newest among all inputs of the transaction: a key's versions may straddle outputs)
                        let mut newest: std::collections::HashMap<Vec<u8>, u64> = std::collections::HashMap::new();
                        for inp in inputs {
                            let p1 = lsmtk::TRASH_ROOT(&work).join(format!("{inp}.sst"));
                            let p2 = lsmtk::SST_ROOT(&work).join(format!("{inp}.sst"));
                            if let Ok(d) = dump_sst(if p1.is_file() { &p1 } else { &p2 }) {
                                for e in &d.entries {
                                    let x = newest.entry(e.key.clone()).or_insert(0);
                                    *x = (*x).max(e.ts);
                                }
                            }
                        }
                        let cands: Vec<usize> = (0..entries.len())
                            .filter(|j| entries[*j].value.is_some() && (*j == 0 || entries[*j - 1].key != entries[*j].key) && newest.get(&entries[*j].key) == Some(&entries[*j].ts))
                            .collect();
                        if cands.is_empty() {
                            continue;
                        }
                        i = *rng.pick(&cands);
                    }
                    match *how {
                        "drop-entry" => {
                            entries.remove(i);
                        }
                        "modify-value" => match &mut entries[i].value {
                            Some(v) => v.push(b'!'),
                            None => entries[i].value = Some(b"resurrected".to_vec()),
                        },
                        _ => {
                            // a copy of the entry under a timestamp no entry of this key has
                            let mut e = entries[i].clone();
                            // ... and that no input of the transaction has either: giving back a version
                            // the collection dropped would be a legal (smaller) collection, not a tamper
                            let mut used: Vec<u64> = entries.iter().filter(|x| x.key == e.key).map(|x| x.ts).collect();
                            for inp in inputs {
                                let p1 = lsmtk::TRASH_ROOT(&work).join(format!("{inp}.sst"));
                                let p2 = lsmtk::SST_ROOT(&work).join(format!("{inp}.sst"));
                                if let Ok(d) = dump_sst(if p1.is_file() { &p1 } else { &p2 }) {
                                    used.extend(d.entries.iter().filter(|x| x.key == e.key).map(|x| x.ts));
                                }
                            }
                            let mut ts = e.ts + 1;
                            while used.contains(&ts) {
                                ts += 1;
                            }
                            e.ts = ts;
                            entries.push(e);
                            entries.sort_by(crate::r#gen::entry_cmp);
                        }
                    }
                    let _ = std::fs::remove_file(&path);
                    let new_name = hex(&crate::c10::content_setsum(&entries));
                    let path = if *books == "name-kept" { path } else { path.parent().unwrap().join(format!("{new_name}.sst")) };
                    if *books != "name-kept" && path.exists() {
                        continue;
                    }
                    let rebuilt = guarded(|| -> Result<(), String> {
                        let mut b = SstBuilder::new(SstOptions::default(), &path).map_err(|e| e.to_string())?;
                        for e in &entries {
                            match &e.value {
                                Some(v) => b.put(&e.key, e.ts, v),
                                None => b.del(&e.key, e.ts),
                            }
                            .map_err(|e| e.to_string())?;
                        }
                        b.seal().map_err(|e| e.to_string())?;
                        Ok(())
                    });
                    if !matches!(rebuilt, Ok(Ok(()))) {
                        rep.count("tampers.rebuild_failed", 1);
                        continue;
                    }
                    if *books != "name-kept" && !rewrite_books(&work, name, &new_name, *books == "consistent-books") {
                        rep.count("tampers.books_not_rewritable", 1);
                        continue;
                    }
                    rep.evaluations += 1;
                    let class = format!("output-file:{}:{how}:{books}", if *gc { "gc" } else { "merge" });
                    rep.count(&format!("tampers.{class}"), 1);
                    let detail = json!({"case": case_no, "file": name, "entry_index": i, "entries": dump.entries.len(), "replay": replay});
                    match run_verifier(sc.cfg.options(&work_s)) {
                        Verdict::Rejected(e) => {
                            rep.count("verdict.rejected", 1);
                            rep.count(&format!("rejected_because.{}", reason(&e)), 1);
                        }
                        Verdict::Backoff => rep.count("verdict.backoff_not_judged", 1),
                        Verdict::Accepted if *books == "name-kept" => {
                            // the file no longer holds what its name says, but every recorded digest is
                            // untouched: nothing in the books was altered, so this is recorded, not judged
                            rep.count(&format!("observed.accepted_with_name_kept.{}.{how}", if *gc { "gc" } else { "merge" }), 1);
                        }
                        Verdict::Accepted => {
                            if std::env::var("VH_KEEP").is_ok() {
                                eprintln!("ACCEPTED {class}: file {name} -> {new_name}; entry {i} of {}: before {:?}", dump.entries.len(), dump.entries.iter().map(|e| e.show()).collect::<Vec<_>>());
                                eprintln!("   after {:?}", entries.iter().map(|e| e.show()).collect::<Vec<_>>());
                                for inp in inputs {
                                    let p1 = lsmtk::TRASH_ROOT(&work).join(format!("{inp}.sst"));
                                    let p2 = lsmtk::SST_ROOT(&work).join(format!("{inp}.sst"));
                                    if let Ok(d) = dump_sst(if p1.is_file() { &p1 } else { &p2 }) {
                                        eprintln!("   input {}: {:?}", &inp[..8], d.entries.iter().map(|e| e.show()).collect::<Vec<_>>());
                                    }
                                }
                            }
                            rep.violation("c04t", &format!("tamper-accepted:{class}"), json!({"message": format!("LsmVerifier::verify accepts a directory in which an output of a {} transaction was rebuilt with one entry changed ({how}); books: {books}", if *gc { "GC" } else { "merging" }), "detail": detail}));
                        }
                        Verdict::Panicked(p) => rep.violation("c04t", &format!("verifier-panic:{}", panic_site(&p)), json!({"message": p, "detail": detail})),
                    }
                }
            }
        }
        let _ = std::fs::remove_dir_all(&work);
        let _ = std::fs::remove_dir_all(&base);
    }
    let _ = BTreeMap::<u8, u8>::new();
    rep.finish(args);
}
