//! Generators shared by the table-level checks (C10, C11, C09, C05 store-free).

use crate::util::{Rng, SHash};

#[derive(Clone, Debug, PartialEq, Eq)]
pub struct Entry {
    pub key: Vec<u8>,
    pub ts: u64,
    pub value: Option<Vec<u8>>,
}

impl Entry {
    pub fn hash_into(&self, h: &mut SHash) {
        h.bytes(&self.key).u64(self.ts);
        match &self.value {
            Some(v) => {
                h.u64(1 + v.len() as u64);
            }
            None => {
                h.u64(0);
            }
        }
    }

    pub fn show(&self) -> String {
        format!(
            "{}@{}={}",
            crate::util::show(&self.key),
            self.ts,
            match &self.value {
                Some(v) => crate::util::show(v),
                None => "<del>".to_string(),
            }
        )
    }
}

/// (key asc, timestamp desc)
pub fn entry_cmp(a: &Entry, b: &Entry) -> std::cmp::Ordering {
    a.key.cmp(&b.key).then(b.ts.cmp(&a.ts))
}

/// An adversarial pool of keys: empty key, single bytes, prefixes of each other, adjacent keys
/// differing in the last byte, 0xff runs, a few long keys.
pub fn key_pool(rng: &mut Rng, n: usize, allow_huge: bool) -> Vec<Vec<u8>> {
    let mut pool: Vec<Vec<u8>> = Vec::new();
    let stems: Vec<Vec<u8>> = vec![
        b"".to_vec(),
        b"a".to_vec(),
        b"ab".to_vec(),
        b"abc".to_vec(),
        b"k".to_vec(),
        b"key".to_vec(),
        vec![0x00],
        vec![0xff],
        vec![0xff, 0xff],
        vec![0xff; 11],
        vec![0xff; 12],
        b"user/".to_vec(),
    ];
    while pool.len() < n {
        let style = rng.below(10);
        let mut k = rng.pick(&stems).clone();
        match style {
            0 => {}
            1 => k.push(rng.below(256) as u8),
            2 => {
                // prefix chain
                let extra = rng.below(4) as usize;
                for _ in 0..extra {
                    k.push(b'a' + rng.below(3) as u8);
                }
            }
            3 => {
                // differ in last byte
                k.extend_from_slice(b"zz");
                k.push(rng.below(4) as u8 + 0x7e);
            }
            4 => {
                let l = rng.below(6) as usize;
                k = rng.bytes(l);
            }
            5 => {
                k.extend_from_slice(format!("{:04}", rng.below(40)).as_bytes());
            }
            6 => {
                // medium-long keys sharing a long prefix
                k = vec![b'p'; 200 + rng.below(3) as usize];
                k.push(rng.below(3) as u8 + b'x');
            }
            7 if allow_huge && rng.chance(1, 6) => {
                k = vec![b'H'; sst::MAX_KEY_LEN - rng.below(2) as usize];
                let l = k.len();
                k[l - 1] = rng.below(3) as u8 + b'a';
            }
            _ => {
                k.push(b'0' + rng.below(10) as u8);
            }
        }
        pool.push(k);
    }
    pool.sort();
    pool.dedup();
    pool
}

pub fn value_of(rng: &mut Rng, allow_huge: bool) -> Vec<u8> {
    let class = rng.below(20);
    let len = match class {
        0 => 0,
        1..=9 => rng.below(16) as usize,
        10..=14 => 16 + rng.below(200) as usize,
        15..=17 => 900 + rng.below(300) as usize,
        18 => 3000 + rng.below(1200) as usize,
        _ => {
            if allow_huge && rng.chance(1, 4) {
                sst::MAX_VALUE_LEN - rng.below(2) as usize
            } else {
                4000 + rng.below(200) as usize
            }
        }
    };
    let fill = rng.below(256) as u8;
    let mut v = vec![fill; len];
    // make values distinguishable
    let tag = rng.u64().to_le_bytes();
    for (i, b) in tag.iter().enumerate() {
        if i < v.len() {
            v[i] = *b;
        }
    }
    v
}

/// A strictly ordered entry sequence over a pool of keys.
pub fn sorted_entries(rng: &mut Rng, max_keys: usize, allow_huge: bool) -> Vec<Entry> {
    let nkeys = match rng.below(10) {
        0 => 0,
        1 => 1,
        2..=5 => 2 + rng.usize(6),
        _ => 2 + rng.usize(max_keys.max(3) - 2),
    };
    let pool = key_pool(rng, nkeys, allow_huge);
    let mut entries = Vec::new();
    let many_versions_key = if pool.is_empty() { 0 } else { rng.usize(pool.len()) };
    let ts_style = rng.below(3);
    for (i, k) in pool.iter().enumerate() {
        let nver = if i == many_versions_key && rng.chance(1, 2) {
            1 + rng.usize(40)
        } else {
            match rng.below(6) {
                0..=2 => 1,
                3..=4 => 2 + rng.usize(3),
                _ => 1 + rng.usize(8),
            }
        };
        let mut tss: Vec<u64> = Vec::new();
        for _ in 0..nver {
            let t = match ts_style {
                0 => rng.below(64),
                1 => rng.below(1 << 20),
                _ => match rng.below(8) {
                    0 => 0,
                    1 => u64::MAX,
                    2 => u64::MAX - rng.below(3),
                    3 => rng.below(3),
                    _ => rng.u64(),
                },
            };
            tss.push(t);
        }
        tss.sort();
        tss.dedup();
        tss.reverse();
        let tomb_run = rng.chance(1, 5);
        for t in tss {
            let value = if tomb_run && rng.chance(3, 4) || rng.chance(1, 6) {
                None
            } else {
                Some(value_of(rng, allow_huge))
            };
            entries.push(Entry {
                key: k.clone(),
                ts: t,
                value,
            });
        }
    }
    entries
}

/// Keys to probe a table with: its own keys, neighbours, prefixes, extremes.
pub fn probe_keys(rng: &mut Rng, entries: &[Entry], n: usize) -> Vec<Vec<u8>> {
    let mut out: Vec<Vec<u8>> = vec![vec![], vec![0xff; 12], vec![0x00]];
    for _ in 0..n {
        if entries.is_empty() {
            let l = rng.usize(4);
            out.push(rng.bytes(l));
            continue;
        }
        let e = &entries[rng.usize(entries.len())];
        let mut k = e.key.clone();
        match rng.below(7) {
            0 | 1 => {}
            2 => {
                k.push(0);
            }
            3 => {
                k.pop();
            }
            4 => {
                if let Some(l) = k.last_mut() {
                    *l = l.wrapping_add(1);
                }
            }
            5 => {
                if let Some(l) = k.last_mut() {
                    *l = l.wrapping_sub(1);
                }
            }
            _ => {
                k.push(0xff);
            }
        }
        out.push(k);
    }
    out
}

#[derive(Clone, Debug, PartialEq, Eq)]
pub enum Move {
    SeekToFirst,
    SeekToLast,
    Seek(Vec<u8>),
    Next,
    Prev,
}

impl Move {
    pub fn show(&self) -> String {
        match self {
            Move::SeekToFirst => "first".into(),
            Move::SeekToLast => "last".into(),
            Move::Seek(k) => format!("seek({})", crate::util::show(k)),
            Move::Next => "next".into(),
            Move::Prev => "prev".into(),
        }
    }

    pub fn hash_into(&self, h: &mut SHash) {
        match self {
            Move::SeekToFirst => h.u64(1),
            Move::SeekToLast => h.u64(2),
            Move::Seek(k) => h.u64(3).bytes(k),
            Move::Next => h.u64(4),
            Move::Prev => h.u64(5),
        };
    }
}

pub fn program(rng: &mut Rng, probes: &[Vec<u8>], len: usize) -> Vec<Move> {
    let mut prog = Vec::with_capacity(len);
    let style = rng.below(4);
    for _ in 0..len {
        let m = match style {
            // mostly forward with reversals
            0 => match rng.below(10) {
                0 => Move::SeekToFirst,
                1 => Move::Seek(rng.pick(probes).clone()),
                2..=3 => Move::Prev,
                _ => Move::Next,
            },
            // mostly backward with reversals
            1 => match rng.below(10) {
                0 => Move::SeekToLast,
                1 => Move::Seek(rng.pick(probes).clone()),
                2..=3 => Move::Next,
                _ => Move::Prev,
            },
            // zig-zag
            2 => match rng.below(8) {
                0 => Move::Seek(rng.pick(probes).clone()),
                1 => Move::SeekToFirst,
                2 => Move::SeekToLast,
                3..=4 => Move::Prev,
                _ => Move::Next,
            },
            _ => match rng.below(5) {
                0 => Move::SeekToFirst,
                1 => Move::SeekToLast,
                2 => Move::Seek(rng.pick(probes).clone()),
                3 => Move::Next,
                _ => Move::Prev,
            },
        };
        prog.push(m);
    }
    prog
}

pub fn has_reversal_or_seek(prog: &[Move]) -> bool {
    let mut last_dir = 0i32;
    for m in prog {
        match m {
            Move::Seek(_) => return true,
            Move::Next => {
                if last_dir < 0 {
                    return true;
                }
                last_dir = 1;
            }
            Move::Prev => {
                if last_dir > 0 {
                    return true;
                }
                last_dir = -1;
            }
            _ => {}
        }
    }
    false
}

/// The reference cursor: a sorted vector with two sentinels.
#[derive(Clone, Debug)]
pub struct RefCursor<'a> {
    pub entries: &'a [Entry],
    pub pos: isize,
}

impl<'a> RefCursor<'a> {
    pub fn new(entries: &'a [Entry]) -> Self {
        Self { entries, pos: -1 }
    }

    pub fn apply(&mut self, m: &Move) {
        let n = self.entries.len() as isize;
        match m {
            Move::SeekToFirst => self.pos = -1,
            Move::SeekToLast => self.pos = n,
            Move::Seek(k) => {
                self.pos = self.entries.partition_point(|e| e.key.as_slice() < k.as_slice())
                    as isize;
            }
            Move::Next => {
                if self.pos < n {
                    self.pos += 1;
                }
            }
            Move::Prev => {
                if self.pos > -1 {
                    self.pos -= 1;
                }
            }
        }
    }

    pub fn current(&self) -> Option<&'a Entry> {
        if self.pos >= 0 && (self.pos as usize) < self.entries.len() {
            Some(&self.entries[self.pos as usize])
        } else {
            None
        }
    }
}

pub fn apply_real<C: sst::Cursor>(c: &mut C, m: &Move) -> Result<(), sst::SError> {
    match m {
        Move::SeekToFirst => c.seek_to_first(),
        Move::SeekToLast => c.seek_to_last(),
        Move::Seek(k) => c.seek(k),
        Move::Next => c.next(),
        Move::Prev => c.prev(),
    }
}

pub fn current_real<C: sst::Cursor>(c: &C) -> Option<Entry> {
    c.key_value().map(|kv| Entry {
        key: kv.key.to_vec(),
        ts: kv.timestamp,
        value: kv.value.map(|v| v.to_vec()),
    })
}

pub fn show_opt(e: &Option<Entry>) -> String {
    match e {
        Some(e) => e.show(),
        None => "<none>".into(),
    }
}

/// Reference for a timestamped point lookup: newest version with ts' <= ts.
pub fn ref_load(entries: &[Entry], key: &[u8], ts: u64) -> (Option<Vec<u8>>, bool) {
    for e in entries {
        if e.key.as_slice() == key && e.ts <= ts {
            return (e.value.clone(), e.value.is_none());
        }
    }
    (None, false)
}
