//! C10 — an SST or block returns exactly what was put in, under every cursor movement.
//!
//! Oracle: the accepted input sequence in a Vec (gen::RefCursor).  The real BlockBuilder/Block and
//! SstBuilder/Sst are driven with the same inputs; after every cursor call the positions must
//! agree; timestamped loads and metadata are compared with the reference.

use serde_json::json;
use sst::block::{Block, BlockBuilder, BlockBuilderOptions};
use sst::{Builder, Cursor, Sst, SstBuilder, SstOptions};

use crate::r#gen::*;
use crate::util::*;

#[derive(Clone, Debug)]
pub struct TableOpts {
    pub bytes_restart: u32,
    pub pairs_restart: u32,
    pub target_block: u32,
}

impl TableOpts {
    pub fn random(rng: &mut Rng) -> Self {
        Self {
            bytes_restart: *rng.pick(&[1u32, 2, 16, 64, 256, 1024, 4096]),
            pairs_restart: *rng.pick(&[1u32, 2, 3, 4, 7, 16, 64]),
            target_block: *rng.pick(&[4096u32, 4096, 4096, 8192, 65536]),
        }
    }

    pub fn block(&self) -> BlockBuilderOptions {
        BlockBuilderOptions::default()
            .bytes_restart_interval(self.bytes_restart)
            .key_value_pairs_restart_interval(self.pairs_restart)
    }

    pub fn sst(&self) -> SstOptions {
        SstOptions::default()
            .block(self.block())
            .target_block_size(self.target_block)
    }

    pub fn json(&self) -> serde_json::Value {
        json!({"bytes_restart": self.bytes_restart, "pairs_restart": self.pairs_restart, "target_block": self.target_block})
    }
}

/// An input attempt: a valid entry, or something a builder must reject.
#[derive(Clone, Debug)]
pub enum Attempt {
    Valid(Entry),
    /// key/ts not strictly after the previous accepted entry
    OutOfOrder(Entry),
    OversizeKey(usize),
    OversizeValue(usize),
}

pub fn attempts(rng: &mut Rng, entries: &[Entry]) -> Vec<Attempt> {
    let mut out = Vec::new();
    for (i, e) in entries.iter().enumerate() {
        if i > 0 && rng.chance(1, 12) {
            // something not after the previous entry
            let prev = &entries[i - 1];
            let bad = match rng.below(4) {
                0 => prev.clone(), // exact duplicate
                1 => Entry {
                    key: prev.key.clone(),
                    ts: prev.ts.saturating_add(1 + rng.below(3)),
                    value: Some(b"late".to_vec()),
                },
                2 => entries[rng.usize(i)].clone(),
                _ => {
                    let mut k = prev.key.clone();
                    if k.pop().is_none() {
                        out.push(Attempt::Valid(e.clone()));
                        continue;
                    }
                    Entry {
                        key: k,
                        ts: rng.below(100),
                        value: None,
                    }
                }
            };
            // Only record as OutOfOrder if it really is not after prev.
            if entry_cmp(&bad, prev) != std::cmp::Ordering::Greater {
                out.push(Attempt::OutOfOrder(bad));
            }
        }
        if rng.chance(1, 40) {
            out.push(Attempt::OversizeKey(sst::MAX_KEY_LEN + 1 + rng.usize(3)));
        }
        if rng.chance(1, 40) {
            out.push(Attempt::OversizeValue(sst::MAX_VALUE_LEN + 1 + rng.usize(3)));
        }
        out.push(Attempt::Valid(e.clone()));
    }
    out
}

fn feed<B: Builder>(
    b: &mut B,
    atts: &[Attempt],
    rep: &mut Report,
    what: &str,
    rejected: &mut Vec<Entry>,
) -> Result<(), (String, String)> {
    let mut last: Option<Entry> = None;
    for a in atts {
        match a {
            Attempt::Valid(e) => {
                let r = match &e.value {
                    Some(v) => b.put(&e.key, e.ts, v),
                    None => b.del(&e.key, e.ts),
                };
                if r.is_err() {
                    // The property speaks about sequences the builder *accepted*; a rejected
                    // in-order entry is recorded as an observation and leaves the reference.
                    rep.count("valid_entries_rejected", 1);
                    rejected.push(e.clone());
                } else {
                    last = Some(e.clone());
                }
            }
            Attempt::OutOfOrder(e) => {
                // Judge against the last entry the builder actually accepted.
                match &last {
                    Some(l) if entry_cmp(e, l) != std::cmp::Ordering::Greater => {}
                    _ => continue,
                }
                rep.count("rejected_attempts.out_of_order", 1);
                let r = match &e.value {
                    Some(v) => b.put(&e.key, e.ts, v),
                    None => b.del(&e.key, e.ts),
                };
                if r.is_ok() {
                    return Err((
                        "out-of-order-accepted".into(),
                        format!("{what}: builder accepted out-of-order entry {}", e.show()),
                    ));
                }
            }
            Attempt::OversizeKey(n) => {
                rep.count("rejected_attempts.oversize_key", 1);
                let k = vec![b'Z'; *n];
                if b.put(&k, 1, b"v").is_ok() {
                    return Err((
                        "oversize-key-accepted".into(),
                        format!("{what}: builder accepted key of {n} bytes"),
                    ));
                }
                if b.del(&k, 1).is_ok() {
                    return Err((
                        "oversize-key-accepted".into(),
                        format!("{what}: builder accepted tombstone key of {n} bytes"),
                    ));
                }
            }
            Attempt::OversizeValue(n) => {
                rep.count("rejected_attempts.oversize_value", 1);
                let v = vec![b'V'; *n];
                // use a key that would sort last so only the size can be the reason
                let k = vec![0xffu8; 40];
                if b.put(&k, 0, &v).is_ok() {
                    return Err((
                        "oversize-value-accepted".into(),
                        format!("{what}: builder accepted value of {n} bytes"),
                    ));
                }
            }
        }
    }
    Ok(())
}

/// Run a cursor program on `c` and the reference; report the first divergence.
pub fn run_program<C: Cursor>(
    c: &mut C,
    entries: &[Entry],
    prog: &[Move],
) -> Result<(), (String, String)> {
    let mut r = RefCursor::new(entries);
    for (i, m) in prog.iter().enumerate() {
        if let Err(err) = apply_real(c, m) {
            return Err((
                "cursor-error".into(),
                format!("step {i} {}: cursor returned error {err}", m.show()),
            ));
        }
        r.apply(m);
        let got = current_real(c);
        let want = r.current().cloned();
        if got != want {
            return Err((
                format!("cursor-mismatch-after-{}", move_class(m)),
                format!(
                    "step {i} {}: real={} reference={} (ref pos {})",
                    m.show(),
                    show_opt(&got),
                    show_opt(&want),
                    r.pos
                ),
            ));
        }
    }
    Ok(())
}

pub fn move_class(m: &Move) -> &'static str {
    match m {
        Move::SeekToFirst => "first",
        Move::SeekToLast => "last",
        Move::Seek(_) => "seek",
        Move::Next => "next",
        Move::Prev => "prev",
    }
}

fn check_loads(
    load: &dyn Fn(&[u8], u64, &mut bool) -> Result<Option<Vec<u8>>, sst::SError>,
    entries: &[Entry],
    probes: &[Vec<u8>],
    rng: &mut Rng,
    rep: &mut Report,
) -> Result<(), (String, String)> {
    for k in probes {
        let mut tss: Vec<u64> = vec![0, u64::MAX, rng.u64()];
        for e in entries.iter().filter(|e| &e.key == k) {
            tss.push(e.ts);
            tss.push(e.ts.wrapping_add(1));
            tss.push(e.ts.wrapping_sub(1));
        }
        tss.truncate(24);
        for ts in tss {
            let mut tomb = false;
            let got = match load(k, ts, &mut tomb) {
                Ok(v) => v,
                Err(err) => {
                    return Err((
                        "load-error".into(),
                        format!("load({}, {ts}) returned error {err}", show(k)),
                    ));
                }
            };
            let (want, want_tomb) = ref_load(entries, k, ts);
            rep.count("loads", 1);
            if got != want || tomb != want_tomb {
                return Err((
                    "load-mismatch".into(),
                    format!(
                        "load({}, {ts}): real=({:?}, tomb={tomb}) reference=({:?}, tomb={want_tomb})",
                        show(k),
                        got.as_ref().map(|v| show(v)),
                        want.as_ref().map(|v| show(v))
                    ),
                ));
            }
        }
    }
    Ok(())
}

pub fn content_setsum(entries: &[Entry]) -> [u8; 32] {
    let mut s = sst::Setsum::default();
    for e in entries {
        match &e.value {
            Some(v) => s.put(&e.key, e.ts, v),
            None => s.del(&e.key, e.ts),
        }
    }
    s.digest()
}

fn one_case(
    case_rng: &mut Rng,
    scratch: &Scratch,
    case_no: u64,
    rep: &mut Report,
    prog_len: usize,
) -> (u64, bool, serde_json::Value, Result<(), (String, String)>) {
    let kind_sst = case_rng.chance(1, 2);
    let opts = TableOpts::random(case_rng);
    let allow_huge = case_rng.chance(1, 10);
    let entries = sorted_entries(case_rng, if kind_sst { 60 } else { 30 }, allow_huge);
    let atts = attempts(case_rng, &entries);
    let probes = probe_keys(case_rng, &entries, 12);
    let nprog = 1 + case_rng.usize(3);
    let progs: Vec<Vec<Move>> = (0..nprog)
        .map(|_| program(case_rng, &probes, prog_len))
        .collect();

    let mut h = SHash::default();
    h.u64(kind_sst as u64)
        .u64(opts.bytes_restart as u64)
        .u64(opts.pairs_restart as u64)
        .u64(opts.target_block as u64);
    for e in &entries {
        e.hash_into(&mut h);
    }
    for p in &progs {
        for m in p {
            m.hash_into(&mut h);
        }
    }
    let total_bytes: usize = entries
        .iter()
        .map(|e| e.key.len() + e.value.as_ref().map(|v| v.len()).unwrap_or(0) + 12)
        .sum();
    let multi_restart = entries.len() as u64 > opts.pairs_restart as u64
        || total_bytes as u64 > opts.bytes_restart as u64 && entries.len() > 1;
    let multi_block = kind_sst && total_bytes > opts.target_block as usize + 64;
    let nontrivial =
        (multi_restart || multi_block) && progs.iter().any(|p| has_reversal_or_seek(p));
    if multi_block {
        rep.count("tables_multi_block", 1);
    }
    if multi_restart {
        rep.count("tables_multi_restart", 1);
    }
    if entries.is_empty() {
        rep.count("tables_empty", 1);
    }
    rep.count(if kind_sst { "sst_tables" } else { "block_tables" }, 1);
    rep.count("entries", entries.len() as u64);

    let desc = json!({
        "case": case_no,
        "kind": if kind_sst { "sst" } else { "block" },
        "opts": opts.json(),
        "entries": entries.len(),
        "first_entries": entries.iter().take(6).map(|e| e.show()).collect::<Vec<_>>(),
        "rejected_attempts": atts.iter().filter(|a| !matches!(a, Attempt::Valid(_))).count(),
        "program0": progs[0].iter().take(12).map(|m| m.show()).collect::<Vec<_>>(),
    });

    let res = guarded(|| -> Result<(), (String, String)> {
        if kind_sst {
            let path = scratch.path.join(format!("c10-{case_no}.sst"));
            let _ = std::fs::remove_file(&path);
            let mut b = SstBuilder::new(opts.sst(), &path)
                .map_err(|e| ("builder-new-error".to_string(), format!("{e}")))?;
            let mut rejected = Vec::new();
            feed(&mut b, &atts, rep, "sst", &mut rejected)?;
            let entries: Vec<Entry> = entries.iter().filter(|e| !rejected.contains(e)).cloned().collect();
            let table: Sst = b
                .seal()
                .map_err(|e| ("seal-error".to_string(), format!("sst seal: {e}")))?;
            // re-open from disk as an independent reader
            let reopened = Sst::<sst::file_manager::FileHandle>::new(opts.sst(), &path)
                .map_err(|e| ("open-error".to_string(), format!("sst open: {e}")))?;
            for (pi, p) in progs.iter().enumerate() {
                let mut c = if pi % 2 == 0 { table.cursor() } else { reopened.cursor() };
                run_program(&mut c, &entries, p)?;
                rep.count("cursor_calls", p.len() as u64);
            }
            // full forward and backward enumeration
            let mut fwd = vec![Move::SeekToFirst];
            fwd.extend(std::iter::repeat_n(Move::Next, entries.len() + 2));
            let mut bwd = vec![Move::SeekToLast];
            bwd.extend(std::iter::repeat_n(Move::Prev, entries.len() + 2));
            run_program(&mut reopened.cursor(), &entries, &fwd)?;
            run_program(&mut reopened.cursor(), &entries, &bwd)?;
            check_loads(
                &|k, ts, tomb| reopened.load(k, ts, tomb),
                &entries,
                &probes,
                case_rng,
                rep,
            )?;
            // metadata
            let md = reopened.metadata().map_err(|e| {
                (
                    if entries.is_empty() {
                        "metadata-error-empty-table".to_string()
                    } else {
                        "metadata-error".to_string()
                    },
                    format!("metadata() failed on a table of {} entries: {e}", entries.len()),
                )
            })?;
            let flen = std::fs::metadata(&path).map(|m| m.len()).unwrap_or(0);
            if !entries.is_empty() {
                let first = &entries[0].key;
                let last = &entries[entries.len() - 1].key;
                let smallest = entries.iter().map(|e| e.ts).min().unwrap();
                let biggest = entries.iter().map(|e| e.ts).max().unwrap();
                if &md.first_key != first
                    || &md.last_key != last
                    || md.smallest_timestamp != smallest
                    || md.biggest_timestamp != biggest
                {
                    return Err((
                        "metadata-mismatch".into(),
                        format!(
                            "metadata {:?} vs first={} last={} ts=[{smallest},{biggest}]",
                            md,
                            show(first),
                            show(last)
                        ),
                    ));
                }
            }
            if md.setsum != content_setsum(&entries) {
                return Err((
                    "metadata-setsum-mismatch".into(),
                    format!(
                        "final-block setsum {} != recomputed {}",
                        hex(&md.setsum),
                        hex(&content_setsum(&entries))
                    ),
                ));
            }
            if reopened.fast_setsum().digest() != md.setsum {
                return Err(("metadata-setsum-mismatch".into(), "fast_setsum != metadata".into()));
            }
            if md.file_size != flen {
                return Err((
                    "metadata-filesize-mismatch".into(),
                    format!("metadata file_size {} != on-disk {}", md.file_size, flen),
                ));
            }
            rep.count("metadata_checks", 1);
            let _ = std::fs::remove_file(&path);
        } else {
            let mut b = BlockBuilder::new(opts.block());
            let mut rejected = Vec::new();
            feed(&mut b, &atts, rep, "block", &mut rejected)?;
            let entries: Vec<Entry> = entries.iter().filter(|e| !rejected.contains(e)).cloned().collect();
            let block: Block = b
                .seal()
                .map_err(|e| ("seal-error".to_string(), format!("block seal: {e}")))?;
            // also via bytes (what an SST reader does)
            let block2 = Block::new(block.as_bytes().to_vec())
                .map_err(|e| ("open-error".to_string(), format!("Block::new: {e}")))?;
            for (pi, p) in progs.iter().enumerate() {
                let mut c = if pi % 2 == 0 { block.cursor() } else { block2.cursor() };
                run_program(&mut c, &entries, p)?;
                rep.count("cursor_calls", p.len() as u64);
            }
            let mut fwd = vec![Move::SeekToFirst];
            fwd.extend(std::iter::repeat_n(Move::Next, entries.len() + 2));
            let mut bwd = vec![Move::SeekToLast];
            bwd.extend(std::iter::repeat_n(Move::Prev, entries.len() + 2));
            run_program(&mut block2.cursor(), &entries, &fwd)?;
            run_program(&mut block2.cursor(), &entries, &bwd)?;
            check_loads(
                &|k, ts, tomb| block2.load(k, ts, tomb),
                &entries,
                &probes,
                case_rng,
                rep,
            )?;
        }
        Ok(())
    });
    let res = match res {
        Ok(r) => r,
        Err(p) => Err((format!("panic:{}", panic_site(&p)), format!("panic: {p}"))),
    };
    (h.get(), nontrivial, desc, res)
}

pub fn run(args: &Args) {
    let mut rep = Report::new("c10", args);
    let cases = args.u64("cases", 500);
    let prog_len = args.u64("prog", 40) as usize;
    let seed = rep.seed;
    let shard = rep.shard;
    let scratch = Scratch::new("c10");
    let only = args.opt("case").map(|c| c.parse::<u64>().unwrap());
    for case_no in 0..cases {
        if let Some(o) = only {
            if o != case_no {
                continue;
            }
        }
        let mut rng = Rng::derive(seed, "c10", shard, case_no);
        let (h, nontrivial, desc, res) = one_case(&mut rng, &scratch, case_no, &mut rep, prog_len);
        rep.evaluations += 1;
        if nontrivial {
            rep.nontrivial.insert(h);
        }
        if rep.want_sample() && nontrivial {
            rep.sample(desc.clone());
        }
        if let Err((sig, msg)) = res {
            rep.violation(
                "c10",
                &sig,
                json!({"case": desc, "message": msg,
                       "replay": format!("vh c10 seed={seed} shard={shard} cases={} prog={prog_len} case={case_no}", case_no + 1)}),
            );
        }
    }
    rep.finish(args);
}
