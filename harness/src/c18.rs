//! C18 — the coalescing queue runs each request once, in order, returning its own result; the
//! wait list has exactly one head; the LRU behaves as a sequential size-bounded LRU map.

use std::collections::{BTreeMap, HashMap, HashSet, VecDeque};
use std::sync::atomic::{AtomicBool, AtomicU64, Ordering};
use std::sync::{Arc, Mutex};

use serde_json::json;
use sync42::lru::LeastRecentlyUsedCache;
use sync42::wait_list::WaitList;
use sync42::work_coalescing_queue::{WorkCoalescingCore, WorkCoalescingQueue};

use crate::util::*;

/////////////////////////////////////////////// queue //////////////////////////////////////////////

#[derive(Clone, Copy, Debug, PartialEq, Eq)]
enum Policy {
    AcceptAll,
    Limit(usize),
    RefuseAll,
}

struct RecordingCore {
    policy: Policy,
    batches: Vec<Vec<u64>>,
    spin: u32,
}

impl WorkCoalescingCore<u64, (u64, u64, u64)> for RecordingCore {
    type InputAccumulator = Vec<u64>;
    type OutputIterator<'a> = std::vec::IntoIter<(u64, u64, u64)>;

    fn can_batch(&self, acc: &Vec<u64>, _other: &u64) -> bool {
        match self.policy {
            Policy::AcceptAll => true,
            Policy::Limit(k) => acc.len() < k,
            Policy::RefuseAll => false,
        }
    }

    fn batch(&mut self, mut acc: Vec<u64>, other: u64) -> Vec<u64> {
        acc.push(other);
        acc
    }

    fn work(&mut self, taken: usize, acc: Vec<u64>) -> Self::OutputIterator<'_> {
        let batch_no = self.batches.len() as u64;
        // some work, so that callers pile up behind the leader
        let mut x = 0u64;
        for i in 0..self.spin {
            x = x.wrapping_mul(31).wrapping_add(i as u64);
        }
        std::hint::black_box(x);
        let out: Vec<(u64, u64, u64)> = acc.iter().enumerate().map(|(p, id)| (*id, batch_no, p as u64)).collect();
        assert_eq!(taken, acc.len());
        self.batches.push(acc);
        out.into_iter()
    }
}

fn thread_states(tids: &[i32]) -> Vec<char> {
    tids.iter()
        .map(|t| {
            std::fs::read_to_string(format!("/proc/self/task/{t}/stat"))
                .ok()
                .and_then(|s| s.rsplit_once(") ").map(|(_, r)| r.chars().next().unwrap_or('?')))
                .unwrap_or('X')
        })
        .collect()
}

// Hook H6: the queue reports the wait-list index each call was linked at, on the calling thread.
thread_local! {
    static CURRENT_INPUT: std::cell::Cell<u64> = const { std::cell::Cell::new(u64::MAX) };
}
static LINKS: Mutex<Vec<(u64, u64)>> = Mutex::new(Vec::new());

fn on_link(index: u64) {
    let id = CURRENT_INPUT.with(|c| c.get());
    LINKS.lock().unwrap().push((index, id));
}

/// Returns Err(signature, message); a deadlock makes the caller exit the process after reporting.
fn queue_run(rng: &mut Rng, rep: &mut Report, run_no: u64) -> (u64, bool, serde_json::Value, Result<(), (String, String)>, bool) {
    let threads = 2 + rng.usize(14);
    let per_thread = 50 + rng.usize(400);
    let policy = match rng.below(4) {
        0 => Policy::AcceptAll,
        1 => Policy::RefuseAll,
        _ => Policy::Limit(1 + rng.usize(5)),
    };
    let spin = *rng.pick(&[0u32, 50, 2000, 20000]);
    let queue = Arc::new(WorkCoalescingQueue::new(RecordingCore { policy, batches: Vec::new(), spin }));
    LINKS.lock().unwrap().clear();
    sync42::work_coalescing_queue::verif::set_on_link(Some(on_link));
    let clock = Arc::new(AtomicU64::new(0));
    let done = Arc::new(AtomicU64::new(0));
    let tids = Arc::new(Mutex::new(Vec::<i32>::new()));
    type Rec = (u64, u64, u64, (u64, u64, u64)); // id, invoke, ret, output
    let results: Arc<Mutex<Vec<Rec>>> = Arc::new(Mutex::new(Vec::new()));
    let mut handles = Vec::new();
    for t in 0..threads {
        let (queue, clock, done, tids, results) = (Arc::clone(&queue), Arc::clone(&clock), Arc::clone(&done), Arc::clone(&tids), Arc::clone(&results));
        let yield_every = 1 + rng.below(16);
        handles.push(std::thread::spawn(move || {
            tids.lock().unwrap().push(unsafe { libc::gettid() });
            let mut mine: Vec<Rec> = Vec::with_capacity(per_thread);
            for i in 0..per_thread {
                let id = ((t as u64) << 32) | i as u64;
                let invoke = clock.fetch_add(1, Ordering::SeqCst);
                CURRENT_INPUT.with(|c| c.set(id));
                let out = queue.do_work(id);
                let ret = clock.fetch_add(1, Ordering::SeqCst);
                mine.push((id, invoke, ret, out));
                done.fetch_add(1, Ordering::SeqCst);
                if (i as u64) % yield_every == 0 {
                    std::thread::yield_now();
                }
            }
            results.lock().unwrap().extend(mine);
        }));
    }
    let total = (threads * per_thread) as u64;
    let desc = json!({"queue_run": run_no, "threads": threads, "calls": total, "policy": format!("{policy:?}"), "core_spin": spin});
    // watchdog: a deadlock is "no call completed across three samples one second apart while every
    // worker sleeps"; anything else after the wall-clock budget is inconclusive
    let start = std::time::Instant::now();
    let mut last = 0u64;
    let mut stuck = 0;
    loop {
        let d = done.load(Ordering::SeqCst);
        if d >= total {
            break;
        }
        std::thread::sleep(std::time::Duration::from_millis(if stuck > 0 { 1000 } else { 20 }));
        let d2 = done.load(Ordering::SeqCst);
        if d2 == d && d2 == last && start.elapsed().as_millis() > 500 {
            let states = thread_states(&tids.lock().unwrap());
            if !states.is_empty() && states.iter().all(|c| *c == 'S') {
                stuck += 1;
                if stuck >= 3 {
                    let mut h = SHash::default();
                    h.u64(run_no);
                    return (
                        h.get(),
                        true,
                        desc,
                        Err(("queue:deadlock".into(), format!("{d2} of {total} calls completed, then nothing for 3 s with all {} worker threads asleep", states.len()))),
                        true,
                    );
                }
            } else {
                stuck = 0;
            }
        } else {
            stuck = 0;
        }
        last = d2;
        if start.elapsed().as_secs() > 120 {
            return (0, false, desc, Err(("inconclusive".into(), "queue run exceeded 120 s without meeting the deadlock predicate".into())), true);
        }
    }
    for h in handles {
        let _ = h.join();
    }
    let results = std::mem::take(&mut *results.lock().unwrap());
    let queue = match Arc::try_unwrap(queue) {
        Ok(q) => q,
        Err(_) => return (0, false, desc, Err(("inconclusive".into(), "queue still shared".into())), false),
    };
    let core = queue.into_inner();
    let mut h = SHash::default();
    h.u64(run_no).u64(threads as u64).u64(core.batches.len() as u64);
    let multi = core.batches.iter().filter(|b| b.len() >= 2).count();
    rep.count("queue.calls", total);
    rep.count("queue.batches", core.batches.len() as u64);
    rep.count("queue.batches_of_2_or_more", multi as u64);
    rep.max("max.queue_batch", core.batches.iter().map(|b| b.len()).max().unwrap_or(0) as u64);
    let r = (|| -> Result<(), (String, String)> {
        // each call got the output produced for its own input
        let mut where_seen: HashMap<u64, (u64, u64)> = HashMap::new();
        for (bn, b) in core.batches.iter().enumerate() {
            if let Policy::Limit(k) = policy {
                if b.len() > k.max(1) {
                    return Err(("queue:batch-exceeds-limit".into(), format!("batch {bn} has {} inputs, core allows {k}", b.len())));
                }
            }
            if policy == Policy::RefuseAll && b.len() != 1 {
                return Err(("queue:batch-exceeds-limit".into(), format!("refusing core got a batch of {}", b.len())));
            }
            for (p, id) in b.iter().enumerate() {
                if where_seen.insert(*id, (bn as u64, p as u64)).is_some() {
                    return Err(("queue:input-seen-twice".into(), format!("input {id:#x} reached the core twice")));
                }
            }
        }
        if where_seen.len() as u64 != total {
            return Err(("queue:input-lost".into(), format!("core saw {} inputs, {total} calls were made", where_seen.len())));
        }
        for (id, _, _, out) in &results {
            if out.0 != *id {
                return Err(("queue:wrong-output".into(), format!("call with input {id:#x} received the output for {:#x}", out.0)));
            }
            if where_seen.get(id) != Some(&(out.1, out.2)) {
                return Err(("queue:wrong-output".into(), format!("call {id:#x} received output of batch {} pos {}, core processed it at {:?}", out.1, out.2, where_seen.get(id))));
            }
        }
        // order: per-thread program order, and real-time order (A returned before B was invoked
        // => A was processed before B)
        let pos = |id: &u64| where_seen[id];
        let mut by_thread: HashMap<u64, Vec<&Rec>> = HashMap::new();
        for r in &results {
            by_thread.entry(r.0 >> 32).or_default().push(r);
        }
        for v in by_thread.values_mut() {
            v.sort_by_key(|r| r.0);
            for w in v.windows(2) {
                if pos(&w[0].0) >= pos(&w[1].0) {
                    return Err(("queue:order".into(), format!("thread's calls {:#x} then {:#x} were processed out of order", w[0].0, w[1].0)));
                }
            }
        }
        // exact entry order (hook H6): the core must see the inputs in the order the calls were
        // linked into the queue's wait list
        let mut links = std::mem::take(&mut *LINKS.lock().unwrap());
        links.sort();
        if links.len() as u64 == total {
            rep.count("queue.calls_with_known_entry_index", total);
            let processed: Vec<u64> = core.batches.iter().flatten().copied().collect();
            for (i, (index, id)) in links.iter().enumerate() {
                if processed[i] != *id {
                    return Err(("queue:entry-order".into(), format!("the call that entered the queue at index {index} (input {id:#x}) was processed at position {} instead of {i}; position {i} holds {:#x}", processed.iter().position(|x| x == id).unwrap_or(usize::MAX), processed[i])));
                }
            }
        } else {
            return Err(("inconclusive".into(), format!("the link hook reported {} of {total} calls", links.len())));
        }
        let mut by_ret: Vec<&Rec> = results.iter().collect();
        by_ret.sort_by_key(|r| r.2);
        let mut prefix_max: Vec<(u64, (u64, u64))> = Vec::new();
        let mut m = (0u64, 0u64);
        for r in &by_ret {
            m = m.max(pos(&r.0));
            prefix_max.push((r.2, m));
        }
        for r in &results {
            let k = prefix_max.partition_point(|(ret, _)| *ret < r.1);
            if k > 0 && pos(&r.0) < prefix_max[k - 1].1 {
                return Err(("queue:order".into(), format!("call {:#x} was invoked after another call had returned but was processed before it", r.0)));
            }
        }
        Ok(())
    })();
    (h.get(), multi > 0, desc, r, false)
}

////////////////////////////////////////////// wait list ///////////////////////////////////////////

fn waitlist_program(rng: &mut Rng, rep: &mut Report) -> (u64, bool, serde_json::Value, Result<(), (String, String)>) {
    let steps = 20 + rng.usize(200);
    let mut h = SHash::default();
    let mut out_of_order = false;
    let mut trace: Vec<String> = Vec::new();
    let r = guarded(|| -> Result<(), (String, String)> {
        let list: WaitList<u64> = WaitList::new();
        // model: index -> value for linked guards; next index to hand out
        let mut guards: Vec<sync42::wait_list::WaitGuard<'_, u64>> = Vec::new();
        let mut model: BTreeMap<u64, u64> = BTreeMap::new();
        let mut tail = 0u64;
        let mut unlinked_below_tail: HashSet<u64> = HashSet::new();
        for step in 0..steps {
            let op = rng.below(10);
            h.u64(op);
            match op {
                0..=3 => {
                    let v = rng.u64();
                    let mut g = list.link(v);
                    if g.index() != tail {
                        return Err(("waitlist:index".into(), format!("step {step}: link returned index {}, expected {tail}", g.index())));
                    }
                    model.insert(tail, v);
                    tail += 1;
                    guards.push(g);
                    trace.push("link".into());
                }
                4..=6 => {
                    if guards.is_empty() {
                        continue;
                    }
                    let i = rng.usize(guards.len());
                    let mut g = guards.swap_remove(i);
                    let idx = g.index();
                    if Some(&idx) != model.keys().next() {
                        out_of_order = true;
                    }
                    model.remove(&idx);
                    unlinked_below_tail.insert(idx);
                    if rng.chance(1, 2) {
                        list.unlink(g);
                    } else {
                        drop(g);
                    }
                    trace.push(format!("unlink {idx}"));
                }
                7 => {
                    list.notify_head();
                    trace.push("notify_head".into());
                }
                8 => {
                    if guards.is_empty() {
                        continue;
                    }
                    let i = rng.usize(guards.len());
                    let v = rng.u64();
                    let idx = guards[i].index();
                    guards[i].store(v);
                    model.insert(idx, v);
                    trace.push(format!("store {idx}"));
                }
                _ => {
                    if guards.is_empty() {
                        continue;
                    }
                    let i = rng.usize(guards.len());
                    let idx = guards[i].index();
                    let mut v = rng.u64();
                    let newv = v;
                    guards[i].swap(&mut v);
                    if Some(&v) != model.get(&idx) {
                        return Err(("waitlist:value".into(), format!("step {step}: swap on {idx} returned {v}, model {:?}", model.get(&idx))));
                    }
                    model.insert(idx, newv);
                    trace.push(format!("swap {idx}"));
                }
            }
            // invariants after every step
            let head = model.keys().next().copied();
            let mut heads = 0;
            for g in guards.iter_mut() {
                let idx = g.index();
                let is_head = g.is_head();
                if is_head {
                    heads += 1;
                }
                if is_head != (Some(idx) == head) {
                    return Err(("waitlist:head".into(), format!("step {step}: guard {idx} is_head={is_head}, lowest linked index is {head:?}; trace tail {:?}", &trace[trace.len().saturating_sub(6)..])));
                }
                let v = g.load();
                if Some(&v) != model.get(&idx) {
                    return Err(("waitlist:value".into(), format!("step {step}: guard {idx} loads {v}, model {:?}", model.get(&idx))));
                }
            }
            if !guards.is_empty() && heads != 1 {
                return Err(("waitlist:head".into(), format!("step {step}: {heads} guards report is_head")));
            }
            if let Some(g) = guards.first_mut() {
                let want = tail - head.unwrap_or(tail);
                let got = g.count();
                if got != want {
                    return Err(("waitlist:count".into(), format!("step {step}: count {got}, linked span {want}")));
                }
                // iteration from a guard covers [own index, tail)
                let idx = g.index();
                let seen: Vec<u64> = g.iter().map(|mut w| w.index()).collect();
                let expect: Vec<u64> = (idx..tail).collect();
                if seen != expect {
                    return Err(("waitlist:iter".into(), format!("step {step}: iter from {idx} gave {seen:?}, expected {expect:?}")));
                }
                // get_waiter: Some for linked later indices, None for unlinked or earlier
                for probe in [idx, tail.saturating_sub(1), tail, idx.saturating_sub(1)] {
                    let linked = model.contains_key(&probe) && probe >= idx;
                    let got = g.get_waiter(probe).is_some();
                    if got != linked {
                        return Err(("waitlist:get_waiter".into(), format!("step {step}: get_waiter({probe}) from {idx} = {got}, linked={linked}")));
                    }
                }
            }
            rep.count("waitlist.steps", 1);
        }
        Ok(())
    });
    let r = match r {
        Ok(r) => r,
        Err(p) => Err((format!("waitlist:panic:{}", panic_site(&p)), format!("panic: {p}"))),
    };
    (h.get(), out_of_order, json!({"waitlist_program_steps": steps, "out_of_order_unlink": out_of_order}), r)
}

/// More waiters than slots: the extra link must block until a slot is released.
fn waitlist_full(rep: &mut Report) -> Result<(), (String, String)> {
    let list: Arc<WaitList<u64>> = Arc::new(WaitList::new());
    let n = sync42::MAX_CONCURRENCY as u64;
    let mut guards = Vec::with_capacity(n as usize);
    for i in 0..n {
        guards.push(list.link(i));
    }
    let returned = Arc::new(AtomicBool::new(false));
    let got_index = Arc::new(AtomicU64::new(u64::MAX));
    let (l2, r2, g2) = (Arc::clone(&list), Arc::clone(&returned), Arc::clone(&got_index));
    let t = std::thread::spawn(move || {
        let mut g = l2.link(0xdead_beef);
        g2.store(g.index(), Ordering::SeqCst);
        r2.store(true, Ordering::SeqCst);
        // hold it until told to let go
        while r2.load(Ordering::SeqCst) {
            std::thread::sleep(std::time::Duration::from_millis(1));
        }
        drop(g);
    });
    std::thread::sleep(std::time::Duration::from_millis(300));
    let early = returned.load(Ordering::SeqCst);
    let head_value = guards[0].load();
    let mut res = Ok(());
    if early {
        res = Err(("waitlist:link-did-not-block".to_string(), format!("all {n} slots were linked, yet one more link returned (index {}); head's value is now {head_value:#x}", got_index.load(Ordering::SeqCst))));
    } else if head_value != 0 {
        res = Err(("waitlist:value".to_string(), format!("head's value changed to {head_value:#x} while another thread was blocked in link")));
    }
    // release the head: the blocked link must now complete with index n
    let g0 = guards.remove(0);
    drop(g0);
    let start = std::time::Instant::now();
    while !returned.load(Ordering::SeqCst) && start.elapsed().as_secs() < 20 {
        std::thread::sleep(std::time::Duration::from_millis(2));
    }
    if !returned.load(Ordering::SeqCst) && res.is_ok() {
        res = Err(("waitlist:link-never-woke".to_string(), "a slot was released but the blocked link did not return within 20 s".to_string()));
    } else if res.is_ok() && got_index.load(Ordering::SeqCst) != n {
        res = Err(("waitlist:index".to_string(), format!("blocked link got index {}, expected {n}", got_index.load(Ordering::SeqCst))));
    }
    if res.is_ok() && !guards[0].is_head() {
        res = Err(("waitlist:head".to_string(), "after the head left, the next linked waiter is not the head".to_string()));
    }
    returned.store(false, Ordering::SeqCst);
    if res.as_ref().err().map(|e| e.0.as_str()) != Some("waitlist:link-never-woke") {
        let _ = t.join();
    }
    drop(guards);
    rep.count("waitlist.full_list_probes", 1);
    res
}

///////////////////////////////////////////////// LRU //////////////////////////////////////////////

#[derive(Clone, Debug)]
struct ModelLru {
    cap: usize,
    refresh_on_overwrite: bool,
    order: VecDeque<u64>, // front = most recent
    map: HashMap<u64, Vec<u8>>,
}

impl ModelLru {
    fn size(&self) -> usize {
        self.map.values().map(|v| v.len()).sum()
    }
    fn touch(&mut self, k: u64) {
        self.order.retain(|x| *x != k);
        self.order.push_front(k);
    }
    fn insert(&mut self, k: u64, v: Vec<u8>, evict: bool) {
        if self.map.contains_key(&k) {
            self.map.insert(k, v);
            if self.refresh_on_overwrite {
                self.touch(k);
            }
        } else {
            self.map.insert(k, v);
            self.order.push_front(k);
        }
        if evict {
            while self.size() > self.cap && !self.order.is_empty() {
                let victim = self.order.pop_back().unwrap();
                self.map.remove(&victim);
            }
        }
    }
    fn lookup(&mut self, k: u64) -> Option<Vec<u8>> {
        let v = self.map.get(&k).cloned();
        if v.is_some() {
            self.touch(k);
        }
        v
    }
    fn remove(&mut self, k: u64) {
        if self.map.remove(&k).is_some() {
            self.order.retain(|x| *x != k);
        }
    }
    fn pop(&mut self) -> Option<(u64, Vec<u8>)> {
        let k = self.order.pop_back()?;
        let v = self.map.remove(&k).unwrap();
        Some((k, v))
    }
}

/// Which reading of "overwrite" does the implementation take?  Either is acceptable.
fn calibrate_refresh() -> bool {
    let c: LeastRecentlyUsedCache<u64, Vec<u8>> = LeastRecentlyUsedCache::new(100);
    c.insert(1, vec![0; 10]);
    c.insert(2, vec![0; 10]);
    c.insert(1, vec![1; 10]); // overwrite the older key
    // the least recent one pops first
    matches!(c.pop(), Some((2, _)))
}

fn lru_program(rng: &mut Rng, rep: &mut Report, refresh: bool) -> (u64, bool, serde_json::Value, Result<(), (String, String)>) {
    let cap = *rng.pick(&[0usize, 1, 10, 64, 100, 1000]);
    let keys = 1 + rng.below(12);
    let steps = 20 + rng.usize(300);
    let mut h = SHash::default();
    h.u64(cap as u64).u64(keys);
    let mut evictions = 0u64;
    let r = guarded(|| -> Result<(), (String, String)> {
        let real: LeastRecentlyUsedCache<u64, Vec<u8>> = LeastRecentlyUsedCache::new(cap);
        let mut model = ModelLru { cap, refresh_on_overwrite: refresh, order: VecDeque::new(), map: HashMap::new() };
        let mut no_evict_bytes_possible = false;
        for step in 0..steps {
            let op = rng.below(12);
            let k = rng.below(keys);
            h.u64(op).u64(k);
            match op {
                0..=4 => {
                    let len = *rng.pick(&[0usize, 1, 5, 10, 33, 64, 101]);
                    let v = vec![(step % 251) as u8; len];
                    let before = model.map.len();
                    model.insert(k, v.clone(), true);
                    if model.map.len() < before + 1 && !model.map.contains_key(&k) || model.map.len() < before {
                        evictions += 1;
                    }
                    real.insert(k, v);
                    let sz = real.approximate_size();
                    if !(sz <= cap || model.map.is_empty()) && sz != model.size() {
                        return Err(("lru:size-after-evicting-insert".into(), format!("step {step}: size {sz} > capacity {cap} after an evicting insert")));
                    }
                    no_evict_bytes_possible = false;
                }
                5 => {
                    let len = *rng.pick(&[0usize, 7, 50, 200]);
                    let v = vec![(step % 251) as u8; len];
                    model.insert(k, v.clone(), false);
                    real.insert_no_evict(k, v);
                    no_evict_bytes_possible = true;
                }
                6..=8 => {
                    let want = model.lookup(k);
                    let got = real.lookup(&k);
                    if got != want {
                        return Err(("lru:lookup".into(), format!("step {step}: lookup({k}) = {:?}, model {:?} (capacity {cap})", got.as_ref().map(|v| v.len()), want.as_ref().map(|v| v.len()))));
                    }
                }
                9 => {
                    model.remove(k);
                    real.remove(&k);
                }
                _ => {
                    let want = model.pop();
                    let got = real.pop();
                    if got != want {
                        return Err(("lru:pop-not-least-recent".into(), format!("step {step}: pop() = {:?}, model's least recently used is {:?}", got.as_ref().map(|g| g.0), want.as_ref().map(|g| g.0))));
                    }
                }
            }
            let sz = real.approximate_size();
            if sz != model.size() {
                return Err(("lru:size".into(), format!("step {step}: accounted size {sz}, sum of entry sizes {}", model.size())));
            }
            if sz > cap && !no_evict_bytes_possible && !model.map.is_empty() {
                // over capacity is only allowed through insert_no_evict since the last evicting insert
                return Err(("lru:over-capacity".into(), format!("step {step}: size {sz} > capacity {cap} without insert_no_evict")));
            }
            rep.count("lru.steps", 1);
        }
        // drain: recency order must match
        loop {
            let want = model.pop();
            let got = real.pop();
            if got != want {
                return Err(("lru:pop-not-least-recent".into(), format!("final drain: pop() = {:?}, model {:?}", got.as_ref().map(|g| g.0), want.as_ref().map(|g| g.0))));
            }
            if want.is_none() {
                break;
            }
        }
        if real.approximate_size() != 0 {
            return Err(("lru:size".into(), "size non-zero after draining".into()));
        }
        Ok(())
    });
    let r = match r {
        Ok(r) => r,
        Err(p) => Err((format!("lru:panic:{}", panic_site(&p)), format!("panic: {p}"))),
    };
    rep.count("lru.evictions", evictions);
    (h.get(), evictions > 0, json!({"lru_capacity": cap, "keys": keys, "steps": steps, "refresh_on_overwrite": refresh}), r)
}

/// concurrent LRU stress (for the race detectors; the functional oracle is size consistency)
fn lru_concurrent(rng: &mut Rng, rep: &mut Report) -> Result<(), (String, String)> {
    let cap = *rng.pick(&[10usize, 100, 1000]);
    let cache: Arc<LeastRecentlyUsedCache<u64, Vec<u8>>> = Arc::new(LeastRecentlyUsedCache::new(cap));
    let threads = 2 + rng.usize(6);
    let mut hs = Vec::new();
    for t in 0..threads {
        let c = Arc::clone(&cache);
        let mut r = Rng::derive(rng.u64(), "lru-thread", t as u64, 0);
        hs.push(std::thread::spawn(move || {
            for i in 0..2000u64 {
                let k = r.below(16);
                match r.below(6) {
                    0 | 1 => c.insert(k, vec![t as u8; r.usize(40)]),
                    2 => c.insert_no_evict(k, vec![t as u8; r.usize(10)]),
                    3 => {
                        if let Some(v) = c.lookup(&k) {
                            // a value is always one some thread inserted whole
                            assert!(v.iter().all(|b| *b == v[0]), "torn value at {i}");
                        }
                    }
                    4 => c.remove(&k),
                    _ => {
                        let _ = c.pop();
                    }
                }
            }
        }));
    }
    for h in hs {
        if h.join().is_err() {
            return Err(("lru:concurrent-panic".into(), "a thread panicked during the concurrent LRU stress".into()));
        }
    }
    // quiescent: size equals the sum of what can be popped
    let mut sum = 0usize;
    let before = cache.approximate_size();
    while let Some((_, v)) = cache.pop() {
        sum += v.len();
    }
    if before != sum || cache.approximate_size() != 0 {
        return Err(("lru:size".into(), format!("after concurrent stress: accounted {before}, popped {sum}, remaining {}", cache.approximate_size())));
    }
    rep.count("lru.concurrent_runs", 1);
    Ok(())
}

pub fn run(args: &Args) {
    let mut rep = Report::new("c18", args);
    rep.max_samples = 6;
    let queue_runs = args.u64("queue_runs", 10);
    let waitlist_programs = args.u64("waitlist_programs", 100);
    let lru_programs = args.u64("lru_programs", 300);
    let full = args.u64("full", 1);
    let (seed, shard) = (rep.seed, rep.shard);
    let refresh = calibrate_refresh();
    rep.notes.insert("lru_overwrite_refreshes_recency".into(), json!(refresh));
    let record = |rep: &mut Report, what: &str, n: u64, h: u64, nontrivial: bool, desc: serde_json::Value, res: Result<(), (String, String)>| {
        rep.evaluations += 1;
        if nontrivial {
            rep.nontrivial.insert(h);
            if n % 17 == 0 {
                rep.sample(desc.clone());
            }
        }
        if let Err((sig, msg)) = res {
            if sig == "inconclusive" {
                rep.inconclusive.push(msg);
            } else {
                rep.violation("c18", &sig, json!({"case": desc, "message": msg, "replay": format!("vh c18 seed={seed} shard={shard} ({what} {n})")}));
            }
        }
    };
    for n in 0..waitlist_programs {
        let mut rng = Rng::derive(seed, "c18wl", shard, n);
        let (h, nt, desc, res) = waitlist_program(&mut rng, &mut rep);
        record(&mut rep, "waitlist", n, h, nt, desc, res);
    }
    for n in 0..lru_programs {
        let mut rng = Rng::derive(seed, "c18lru", shard, n);
        let (h, nt, desc, res) = lru_program(&mut rng, &mut rep, refresh);
        record(&mut rep, "lru", n, h, nt, desc, res);
    }
    for n in 0..(lru_programs / 50).max(1) {
        let mut rng = Rng::derive(seed, "c18lruconc", shard, n);
        let res = guarded(|| lru_concurrent(&mut rng, &mut rep));
        let res = match res {
            Ok(r) => r,
            Err(p) => Err((format!("lru:panic:{}", panic_site(&p)), format!("panic: {p}"))),
        };
        record(&mut rep, "lru-concurrent", n, fnv1a(b"lruconc") ^ n ^ (shard << 8), false, json!({"lru_concurrent": n}), res);
    }
    if full > 0 {
        let res = guarded(|| waitlist_full(&mut rep));
        let res = match res {
            Ok(r) => r,
            Err(p) => Err((format!("waitlist:panic:{}", panic_site(&p)), format!("panic: {p}"))),
        };
        record(&mut rep, "waitlist-full", 0, fnv1a(b"full") ^ shard, true, json!({"waitlist_full": sync42::MAX_CONCURRENCY}), res);
    }
    let mut must_exit = false;
    for n in 0..queue_runs {
        let mut rng = Rng::derive(seed, "c18q", shard, n);
        let (h, nt, desc, res, stuck) = queue_run(&mut rng, &mut rep, n);
        record(&mut rep, "queue", n, h, nt, desc, res);
        if stuck {
            must_exit = true;
            break;
        }
    }
    rep.finish(args);
    if must_exit {
        // worker threads are parked forever; leave without joining them
        std::process::exit(0);
    }
}
