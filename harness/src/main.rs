#![allow(dead_code)]
//! vh — the verification harness for rescrv/blue.  One subcommand per check; see /verif/DESIGN.md.

mod util;
#[path = "gen.rs"]
mod r#gen;
mod c10;
mod c11;
mod c14;
mod c16;

use util::Args;

fn main() {
    let argv: Vec<String> = std::env::args().collect();
    if argv.len() < 2 {
        eprintln!("usage: vh <check> [key=value ...]");
        std::process::exit(2);
    }
    let args = Args::parse(&argv[2..]);
    util::quiet_panics();
    match argv[1].as_str() {
        "c10" => c10::run(&args),
        "c11" => c11::run(&args),
        "c14" => c14::run(&args),
        "c16" => c16::run(&args),
        "c14ref" => c14::run_ref(&args),
        other => {
            eprintln!("unknown check {other}");
            std::process::exit(2);
        }
    }
}
