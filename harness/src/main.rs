#![allow(dead_code)]
//! vh — the verification harness for rescrv/blue.  One subcommand per check; see /verif/DESIGN.md.

mod alloc;
mod util;
#[path = "gen.rs"]
mod r#gen;
mod c04t;
mod c05;
mod c09;
mod c10;
mod c11;
mod c12;
mod c13;
mod crash;
mod e1;
mod e2;
mod e3;
mod c20;
mod c14;
mod c15;
mod c16;
mod c17;
mod c18;
mod c19;

use util::Args;

#[cfg(not(miri))]
#[global_allocator]
static GLOBAL: alloc::CountingAlloc = alloc::CountingAlloc;

fn main() {
    let argv: Vec<String> = std::env::args().collect();
    if argv.len() < 2 {
        eprintln!("usage: vh <check> [key=value ...]");
        std::process::exit(2);
    }
    let args = Args::parse(&argv[2..]);
    util::quiet_panics();
    match argv[1].as_str() {
        "c10" => c10::run(&args),
        "c11" => c11::run(&args),
        "c12" => c12::run(&args),
        "c12conc" => c12::run_conc(&args),
        "c13" => c13::run(&args),
        "c13child" => c13::run_child(&args),
        "c13lock" => c13::run_lock(&args),
        "c14" => c14::run(&args),
        "c15" => c15::run(&args),
        "c16" => c16::run(&args),
        "c17" => c17::run(&args),
        "c18" => c18::run(&args),
        "c19" => c19::run(&args),
        "e1" => e1::run(&args),
        "e2" => e2::run(&args),
        "e3" => e3::run(&args),
        "c09" => c09::run(&args),
        "c05gc" => c05::run(&args),
        "c04t" => c04t::run(&args),
        "c09regions" => c09::run_regions(&args),
        "c20race" => c20::run(&args),
        "e3child" => e3::run_child(&args),
        "e2child" => e2::run_child(&args),
        "e2recover" => e2::run_recover(&args),
        "e2recoverchild" => e2::run_recover_child(&args),
        "c14ref" => c14::run_ref(&args),
        other => {
            eprintln!("unknown check {other}");
            std::process::exit(2);
        }
    }
}
