//! C11 — merging, concatenating, pruning, bounds and lazy cursors equal their definitions.
//!
//! Children are vectors behind a trivial Cursor (VecCursor, written here, independent of the
//! repository) or, for the lazy cursor, small real SSTs.  The expected output of each combinator is
//! computed from its definition as a plain vector; after every call of a random program the real
//! cursor's key_value() must equal the reference cursor's (gen::RefCursor).

use std::ops::Bound;
use std::rc::Rc;

use serde_json::json;
use sst::bounds_cursor::BoundsCursor;
use sst::concat_cursor::ConcatenatingCursor;
use sst::lazy_cursor::LazyCursor;
use sst::merging_cursor::MergingCursor;
use sst::pruning_cursor::PruningCursor;
use sst::{Builder, Cursor, KeyRef, SError, SstBuilder};

use crate::c10::{TableOpts, move_class};
use crate::r#gen::*;
use crate::util::*;

/////////////////////////////////////////////// VecCursor //////////////////////////////////////////

#[derive(Clone, Debug)]
pub struct VecCursor {
    entries: Rc<Vec<Entry>>,
    pos: isize,
}

impl VecCursor {
    pub fn new(entries: Vec<Entry>) -> Self {
        Self {
            entries: Rc::new(entries),
            pos: -1,
        }
    }
}

impl Cursor for VecCursor {
    fn seek_to_first(&mut self) -> Result<(), SError> {
        self.pos = -1;
        Ok(())
    }
    fn seek_to_last(&mut self) -> Result<(), SError> {
        self.pos = self.entries.len() as isize;
        Ok(())
    }
    fn seek(&mut self, key: &[u8]) -> Result<(), SError> {
        self.pos = self.entries.partition_point(|e| e.key.as_slice() < key) as isize;
        Ok(())
    }
    fn prev(&mut self) -> Result<(), SError> {
        if self.pos > -1 {
            self.pos -= 1;
        }
        Ok(())
    }
    fn next(&mut self) -> Result<(), SError> {
        if self.pos < self.entries.len() as isize {
            self.pos += 1;
        }
        Ok(())
    }
    fn key(&self) -> Option<KeyRef<'_>> {
        if self.pos >= 0 && (self.pos as usize) < self.entries.len() {
            let e = &self.entries[self.pos as usize];
            Some(KeyRef::new(&e.key, e.ts))
        } else {
            None
        }
    }
    fn value(&self) -> Option<&[u8]> {
        if self.pos >= 0 && (self.pos as usize) < self.entries.len() {
            self.entries[self.pos as usize].value.as_deref()
        } else {
            None
        }
    }
}

//////////////////////////////////////////// definitions ///////////////////////////////////////////

pub fn in_bounds(key: &[u8], start: &Bound<Vec<u8>>, end: &Bound<Vec<u8>>) -> bool {
    let lo = match start {
        Bound::Unbounded => true,
        Bound::Included(s) => key >= s.as_slice(),
        Bound::Excluded(s) => key > s.as_slice(),
    };
    let hi = match end {
        Bound::Unbounded => true,
        Bound::Included(e) => key <= e.as_slice(),
        Bound::Excluded(e) => key < e.as_slice(),
    };
    lo && hi
}

/// Per key the newest version with ts <= t, unless it is a tombstone.
pub fn prune(entries: &[Entry], t: u64) -> Vec<Entry> {
    let mut out = Vec::new();
    let mut i = 0;
    while i < entries.len() {
        let key = &entries[i].key;
        let mut j = i;
        let mut chosen: Option<&Entry> = None;
        while j < entries.len() && &entries[j].key == key {
            if chosen.is_none() && entries[j].ts <= t {
                chosen = Some(&entries[j]);
            }
            j += 1;
        }
        if let Some(c) = chosen {
            if c.value.is_some() {
                out.push(c.clone());
            }
        }
        i = j;
    }
    out
}

/// Per key the newest version with ts <= t, tombstones included.
pub fn prune_keep(entries: &[Entry], t: u64) -> Vec<Entry> {
    let mut out: Vec<Entry> = Vec::new();
    for e in entries {
        if e.ts <= t && out.last().map(|l| l.key != e.key).unwrap_or(true) {
            out.push(e.clone());
        }
    }
    out
}

pub fn random_bound(rng: &mut Rng, probes: &[Vec<u8>]) -> Bound<Vec<u8>> {
    match rng.below(5) {
        0 | 1 => Bound::Unbounded,
        2 | 3 => Bound::Included(rng.pick(probes).clone()),
        _ => Bound::Excluded(rng.pick(probes).clone()),
    }
}

pub fn show_bound(b: &Bound<Vec<u8>>) -> String {
    match b {
        Bound::Unbounded => "unbounded".into(),
        Bound::Included(k) => format!("incl({})", show(k)),
        Bound::Excluded(k) => format!("excl({})", show(k)),
    }
}

/// Entries for combinator tests: small values, many shared keys, tombstones.
fn small_entries(rng: &mut Rng) -> Vec<Entry> {
    let mut e = sorted_entries(rng, 24, false);
    for x in e.iter_mut() {
        if let Some(v) = &mut x.value {
            v.truncate(12);
        }
    }
    e
}

fn run_generic<C: Cursor>(
    c: &mut C,
    expect: &[Entry],
    prog: &[Move],
    combinator: &str,
) -> Result<(), (String, String)> {
    let mut r = RefCursor::new(expect);
    for (i, m) in prog.iter().enumerate() {
        if let Err(err) = apply_real(c, m) {
            return Err((
                format!("{combinator}:cursor-error"),
                format!("step {i} {}: error {err}", m.show()),
            ));
        }
        r.apply(m);
        let got = current_real(c);
        let want = r.current().cloned();
        if std::env::var("VH_DEBUG").is_ok() {
            eprintln!("step {i} {} real={} ref={}", m.show(), show_opt(&got), show_opt(&want));
        }
        if got != want {
            // verified explanations for the two defect classes the design anticipated
            let mut sig = format!("{combinator}:mismatch-after-{}", move_class(m));
            if combinator == "concat" {
                if let Some(w) = &want {
                    if w.value.is_none() || got.as_ref().map(|g| g.value.is_none()).unwrap_or(false)
                    {
                        sig.push_str(":at-tombstone");
                    }
                }
            }
            return Err((
                sig,
                format!(
                    "step {i} {}: real={} reference={} (ref pos {} of {}); program prefix: {}",
                    m.show(),
                    show_opt(&got),
                    show_opt(&want),
                    r.pos,
                    expect.len(),
                    prog[..=i].iter().map(|m| m.show()).collect::<Vec<_>>().join(" ")
                ),
            ));
        }
    }
    Ok(())
}

struct CaseInfo {
    hash: u64,
    nontrivial: bool,
    desc: serde_json::Value,
}

fn one_case(
    rng: &mut Rng,
    scratch: &Scratch,
    case_no: u64,
    rep: &mut Report,
    prog_len: usize,
    only_comb: Option<&str>,
) -> (CaseInfo, Result<(), (String, String)>) {
    let combs = ["merge", "concat", "bounds", "prune", "lazy", "stack", "prune_keep", "store_stack"];
    let comb = match only_comb {
        Some(c) => combs.iter().find(|x| **x == c).copied().unwrap_or("merge"),
        None => *rng.pick(&combs),
    };
    let all = small_entries(rng);
    let probes = probe_keys(rng, &all, 10);
    let progs: Vec<Vec<Move>> = (0..2).map(|_| program(rng, &probes, prog_len)).collect();
    let mut h = SHash::default();
    h.str(comb);
    for e in &all {
        e.hash_into(&mut h);
    }
    for p in &progs {
        for m in p {
            m.hash_into(&mut h);
        }
    }
    let has_tomb = all.iter().any(|e| e.value.is_none());
    let shared_key = all.windows(2).any(|w| w[0].key == w[1].key);
    let reversal = progs.iter().any(|p| has_reversal_or_seek(p));
    rep.count(&format!("cases.{comb}"), 1);
    let mut extra = json!({});
    let mut children_n = 1usize;

    let res = guarded(|| -> Result<(), (String, String)> {
        match comb {
            "merge" => {
                let m = 1 + rng.usize(6);
                let mut kids: Vec<Vec<Entry>> = vec![Vec::new(); m];
                let style = rng.below(3);
                for (i, e) in all.iter().enumerate() {
                    let k = match style {
                        0 => rng.usize(m),
                        1 => i % m,
                        // versions of one key go to different children
                        _ => (fnv1a(&e.key) as usize).wrapping_add(e.ts as usize) % m,
                    };
                    kids[k].push(e.clone());
                }
                if rng.chance(1, 3) {
                    kids.push(Vec::new());
                }
                children_n = kids.len();
                h.u64(children_n as u64).u64(style);
                extra = json!({"children": kids.iter().map(|k| k.len()).collect::<Vec<_>>()});
                for p in &progs {
                    let cursors: Vec<VecCursor> =
                        kids.iter().map(|k| VecCursor::new(k.clone())).collect();
                    let mut c = MergingCursor::new(cursors)
                        .map_err(|e| ("merge:new-error".to_string(), format!("{e}")))?;
                    run_generic(&mut c, &all, p, "merge")?;
                }
            }
            "concat" => {
                // split the sorted list into consecutive chunks; boundaries may fall between two
                // versions of one key (that is what a size-split compaction output looks like)
                let m = 1 + rng.usize(6);
                let mut cuts: Vec<usize> = (0..m - 1).map(|_| rng.usize(all.len() + 1)).collect();
                cuts.sort();
                let mut kids: Vec<Vec<Entry>> = Vec::new();
                let mut prev = 0;
                for c in cuts.iter().chain(std::iter::once(&all.len())) {
                    kids.push(all[prev..*c].to_vec());
                    prev = *c;
                }
                children_n = kids.len();
                h.u64(children_n as u64);
                for c in &cuts {
                    h.u64(*c as u64);
                }
                extra = json!({"children": kids.iter().map(|k| k.len()).collect::<Vec<_>>()});
                for p in &progs {
                    let cursors: Vec<VecCursor> =
                        kids.iter().map(|k| VecCursor::new(k.clone())).collect();
                    let mut c = ConcatenatingCursor::new(cursors)
                        .map_err(|e| ("concat:new-error".to_string(), format!("{e}")))?;
                    run_generic(&mut c, &all, p, "concat")?;
                }
            }
            "bounds" => {
                let sb = random_bound(rng, &probes);
                let eb = random_bound(rng, &probes);
                let expect: Vec<Entry> = all
                    .iter()
                    .filter(|e| in_bounds(&e.key, &sb, &eb))
                    .cloned()
                    .collect();
                h.str(&show_bound(&sb)).str(&show_bound(&eb));
                extra = json!({"start": show_bound(&sb), "end": show_bound(&eb), "in_bounds": expect.len()});
                if expect.is_empty() {
                    rep.count("bounds.empty_or_inverted", 1);
                }
                for p in &progs {
                    let mut c = BoundsCursor::new(VecCursor::new(all.clone()), &sb, &eb)
                        .map_err(|e| ("bounds:new-error".to_string(), format!("{e}")))?;
                    run_generic(&mut c, &expect, p, "bounds")?;
                }
            }
            "prune" => {
                let mut tss: Vec<u64> = all.iter().map(|e| e.ts).collect();
                tss.push(0);
                tss.push(u64::MAX);
                let t = match rng.below(4) {
                    0 => u64::MAX,
                    1 => rng.pick(&tss).wrapping_sub(1),
                    _ => *rng.pick(&tss),
                };
                let expect = prune(&all, t);
                h.u64(t);
                extra = json!({"timestamp": t, "pruned_len": expect.len()});
                for p in &progs {
                    let mut c = PruningCursor::new(VecCursor::new(all.clone()), t)
                        .map_err(|e| ("prune:new-error".to_string(), format!("{e}")))?;
                    run_generic(&mut c, &expect, p, "prune")?;
                }
            }
            "prune_keep" => {
                // the per-component mode: newest version <= t per key, tombstones retained
                let mut tss: Vec<u64> = all.iter().map(|e| e.ts).collect();
                tss.push(0);
                tss.push(u64::MAX);
                let t = match rng.below(4) {
                    0 => u64::MAX,
                    1 => rng.pick(&tss).wrapping_sub(1),
                    _ => *rng.pick(&tss),
                };
                let expect = prune_keep(&all, t);
                h.u64(t);
                extra = json!({"timestamp": t, "pruned_len": expect.len()});
                for p in &progs {
                    let mut c = PruningCursor::with_tombstones(VecCursor::new(all.clone()), t)
                        .map_err(|e| ("prune_keep:new-error".to_string(), format!("{e}")))?;
                    run_generic(&mut c, &expect, p, "prune_keep")?;
                }
            }
            "store_stack" => {
                // the composition the store builds for a scan: every component is pruned on its own
                // (tombstones retained), merged, pruned again and clamped.  Children stand for
                // memtable / L0 files (arbitrary overlap) and one level (a concatenation).
                let m = 1 + rng.usize(4);
                let mut kids: Vec<Vec<Entry>> = vec![Vec::new(); m];
                for e in all.iter() {
                    kids[rng.usize(m)].push(e.clone());
                }
                children_n = m;
                let sb = random_bound(rng, &probes);
                let eb = random_bound(rng, &probes);
                let mut tss: Vec<u64> = all.iter().map(|e| e.ts).collect();
                tss.push(u64::MAX);
                let t = *rng.pick(&tss);
                let expect: Vec<Entry> = prune(&all, t)
                    .into_iter()
                    .filter(|e| in_bounds(&e.key, &sb, &eb))
                    .collect();
                h.u64(m as u64).u64(t).str(&show_bound(&sb)).str(&show_bound(&eb));
                extra = json!({"children": kids.iter().map(|k| k.len()).collect::<Vec<_>>(),
                    "timestamp": t, "start": show_bound(&sb), "end": show_bound(&eb)});
                for p in &progs {
                    let mut cursors: Vec<Box<dyn Cursor>> = Vec::new();
                    for (i, k) in kids.iter().enumerate() {
                        if i + 1 == kids.len() && k.len() >= 2 {
                            // the last child plays a level: split into key-ordered files
                            let cut = k.len() / 2;
                            let files = vec![
                                PruningCursor::with_tombstones(VecCursor::new(k[..cut].to_vec()), t).unwrap(),
                                PruningCursor::with_tombstones(VecCursor::new(k[cut..].to_vec()), t).unwrap(),
                            ];
                            cursors.push(Box::new(ConcatenatingCursor::new(files).unwrap()));
                        } else {
                            cursors.push(Box::new(PruningCursor::with_tombstones(VecCursor::new(k.clone()), t).unwrap()));
                        }
                    }
                    let c = MergingCursor::new(cursors)
                        .map_err(|e| ("store_stack:new-error".to_string(), format!("{e}")))?;
                    let c = PruningCursor::new(c, t)
                        .map_err(|e| ("store_stack:new-error".to_string(), format!("{e}")))?;
                    let mut c = BoundsCursor::new(c, &sb, &eb)
                        .map_err(|e| ("store_stack:new-error".to_string(), format!("{e}")))?;
                    run_generic(&mut c, &expect, p, "store_stack")?;
                }
            }
            "lazy" => {
                let opts = TableOpts::random(rng);
                let path = scratch.path.join(format!("c11-{case_no}.sst"));
                let _ = std::fs::remove_file(&path);
                let mut b = SstBuilder::new(opts.sst(), &path)
                    .map_err(|e| ("lazy:builder-error".to_string(), format!("{e}")))?;
                let mut accepted = Vec::new();
                for e in &all {
                    let r = match &e.value {
                        Some(v) => b.put(&e.key, e.ts, v),
                        None => b.del(&e.key, e.ts),
                    };
                    if r.is_ok() {
                        accepted.push(e.clone());
                    }
                }
                let table = b
                    .seal()
                    .map_err(|e| ("lazy:seal-error".to_string(), format!("{e}")))?;
                for p in &progs {
                    let t = table.clone();
                    let opened = Rc::new(std::cell::Cell::new(0u64));
                    let o2 = Rc::clone(&opened);
                    let mut c = LazyCursor::new(move || {
                        o2.set(o2.get() + 1);
                        Ok(t.cursor())
                    });
                    run_generic(&mut c, &accepted, p, "lazy")?;
                    rep.count("lazy.instantiations", opened.get());
                }
                let _ = std::fs::remove_file(&path);
            }
            _ => {
                // "stack": Bounds(Prune(Merge(children))) — the composition the store builds,
                // with unpruned children (the definitional composition).
                let m = 1 + rng.usize(4);
                let mut kids: Vec<Vec<Entry>> = vec![Vec::new(); m];
                for e in all.iter() {
                    kids[rng.usize(m)].push(e.clone());
                }
                children_n = m;
                let sb = random_bound(rng, &probes);
                let eb = random_bound(rng, &probes);
                let mut tss: Vec<u64> = all.iter().map(|e| e.ts).collect();
                tss.push(u64::MAX);
                let t = *rng.pick(&tss);
                let expect: Vec<Entry> = prune(&all, t)
                    .into_iter()
                    .filter(|e| in_bounds(&e.key, &sb, &eb))
                    .collect();
                h.u64(m as u64).u64(t).str(&show_bound(&sb)).str(&show_bound(&eb));
                extra = json!({"children": kids.iter().map(|k| k.len()).collect::<Vec<_>>(),
                    "timestamp": t, "start": show_bound(&sb), "end": show_bound(&eb)});
                for p in &progs {
                    let cursors: Vec<VecCursor> =
                        kids.iter().map(|k| VecCursor::new(k.clone())).collect();
                    let c = MergingCursor::new(cursors)
                        .map_err(|e| ("stack:new-error".to_string(), format!("{e}")))?;
                    let c = PruningCursor::new(c, t)
                        .map_err(|e| ("stack:new-error".to_string(), format!("{e}")))?;
                    let mut c = BoundsCursor::new(c, &sb, &eb)
                        .map_err(|e| ("stack:new-error".to_string(), format!("{e}")))?;
                    run_generic(&mut c, &expect, p, "stack")?;
                }
            }
        }
        rep.count("cursor_calls", (progs.len() * prog_len) as u64);
        Ok(())
    });
    let res = match res {
        Ok(r) => r,
        Err(p) => Err((format!("{comb}:panic:{}", panic_site(&p)), format!("panic: {p}"))),
    };
    let nontrivial = match comb {
        "merge" | "concat" | "stack" | "store_stack" => children_n >= 2 && (has_tomb || shared_key) && reversal,
        _ => all.len() >= 2 && (has_tomb || shared_key) && reversal,
    };
    let desc = json!({
        "case": case_no,
        "combinator": comb,
        "entries": all.len(),
        "first_entries": all.iter().take(6).map(|e| e.show()).collect::<Vec<_>>(),
        "extra": extra,
        "program0": progs[0].iter().take(12).map(|m| m.show()).collect::<Vec<_>>(),
    });
    (
        CaseInfo {
            hash: h.get(),
            nontrivial,
            desc,
        },
        res,
    )
}

pub fn run(args: &Args) {
    let mut rep = Report::new("c11", args);
    rep.max_samples = 6;
    let cases = args.u64("cases", 1000);
    let prog_len = args.u64("prog", 40) as usize;
    let seed = rep.seed;
    let shard = rep.shard;
    let scratch = Scratch::new("c11");
    let only = args.opt("case").map(|c| c.parse::<u64>().unwrap());
    let only_comb = args.opt("comb");
    let mut sampled = std::collections::BTreeSet::new();
    for case_no in 0..cases {
        if let Some(o) = only {
            if o != case_no {
                continue;
            }
        }
        let mut rng = Rng::derive(seed, "c11", shard, case_no);
        let (info, res) = one_case(
            &mut rng,
            &scratch,
            case_no,
            &mut rep,
            prog_len,
            only_comb.as_deref(),
        );
        rep.evaluations += 1;
        if info.nontrivial {
            rep.nontrivial.insert(info.hash);
            let comb = info.desc["combinator"].as_str().unwrap().to_string();
            rep.count(&format!("nontrivial.{comb}"), 1);
            if !sampled.contains(&comb) {
                sampled.insert(comb);
                rep.sample(info.desc.clone());
            }
        }
        if let Err((sig, msg)) = res {
            rep.violation(
                "c11",
                &sig,
                json!({"case": info.desc, "message": msg,
                       "replay": format!("vh c11 seed={seed} shard={shard} cases={} prog={prog_len} case={case_no}", case_no + 1)}),
            );
        }
    }
    rep.finish(args);
}
