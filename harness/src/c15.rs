//! C15 — the protobuf codec round-trips all values and decodes arbitrary bytes safely.
//!
//! Oracles: (1) an independent wire encoder/decoder written from the protobuf encoding spec
//! (this file, `wire` module) — the real bytes must equal the reference bytes, or at least decode
//! (with the independent decoder) to the same per-field records; (2) pack_sz == packed length;
//! (3) unpack(pack(v)) == v (floats by bits), consuming everything; (4) unknown fields injected at
//! every record boundary change nothing; (5) hostile bytes give a value or an error, never a panic
//! or an over-cap allocation; (6) varints: fast path, slow path and a reference decoder agree.

use buffertk::{Packable, Unpackable, Unpacker, stack_pack, v64};
use prototk_derive::Message;
use serde_json::json;

use crate::util::*;

//////////////////////////////////////////// wire reference ////////////////////////////////////////

pub mod wire {
    #[derive(Clone, Debug, PartialEq, Eq)]
    pub enum Payload {
        Varint(u64),
        Fixed64([u8; 8]),
        Len(Vec<u8>),
        Fixed32([u8; 4]),
    }

    #[derive(Clone, Debug, PartialEq, Eq)]
    pub struct Rec {
        pub field: u32,
        pub payload: Payload,
    }

    pub fn varint(mut x: u64, out: &mut Vec<u8>) {
        loop {
            let b = (x & 0x7f) as u8;
            x >>= 7;
            if x == 0 {
                out.push(b);
                return;
            }
            out.push(b | 0x80);
        }
    }

    pub fn encode(recs: &[Rec]) -> Vec<u8> {
        let mut out = Vec::new();
        for r in recs {
            let wt = match &r.payload {
                Payload::Varint(_) => 0,
                Payload::Fixed64(_) => 1,
                Payload::Len(_) => 2,
                Payload::Fixed32(_) => 5,
            };
            varint(((r.field as u64) << 3) | wt, &mut out);
            match &r.payload {
                Payload::Varint(x) => varint(*x, &mut out),
                Payload::Fixed64(b) => out.extend_from_slice(b),
                Payload::Len(b) => {
                    varint(b.len() as u64, &mut out);
                    out.extend_from_slice(b);
                }
                Payload::Fixed32(b) => out.extend_from_slice(b),
            }
        }
        out
    }

    /// Reference varint decoder: value, bytes consumed; None if unterminated within 10 bytes.
    pub fn read_varint(buf: &[u8]) -> Option<(u64, usize)> {
        let mut x = 0u64;
        for (i, b) in buf.iter().enumerate().take(10) {
            x |= ((*b & 0x7f) as u64).wrapping_shl(7 * i as u32);
            if b & 0x80 == 0 {
                return Some((x, i + 1));
            }
        }
        None
    }

    pub fn decode(mut buf: &[u8]) -> Option<Vec<Rec>> {
        let mut out = Vec::new();
        while !buf.is_empty() {
            let (tag, n) = read_varint(buf)?;
            buf = &buf[n..];
            let field = (tag >> 3) as u32;
            let payload = match tag & 7 {
                0 => {
                    let (x, n) = read_varint(buf)?;
                    buf = &buf[n..];
                    Payload::Varint(x)
                }
                1 => {
                    if buf.len() < 8 {
                        return None;
                    }
                    let mut b = [0u8; 8];
                    b.copy_from_slice(&buf[..8]);
                    buf = &buf[8..];
                    Payload::Fixed64(b)
                }
                2 => {
                    let (l, n) = read_varint(buf)?;
                    buf = &buf[n..];
                    if (buf.len() as u64) < l {
                        return None;
                    }
                    let b = buf[..l as usize].to_vec();
                    buf = &buf[l as usize..];
                    Payload::Len(b)
                }
                5 => {
                    if buf.len() < 4 {
                        return None;
                    }
                    let mut b = [0u8; 4];
                    b.copy_from_slice(&buf[..4]);
                    buf = &buf[4..];
                    Payload::Fixed32(b)
                }
                _ => return None,
            };
            out.push(Rec { field, payload });
        }
        Some(out)
    }

    pub fn zigzag64(x: i64) -> u64 {
        ((x << 1) ^ (x >> 63)) as u64
    }

    pub fn zigzag32(x: i32) -> u64 {
        (((x << 1) ^ (x >> 31)) as u32) as u64
    }
}

use wire::{Payload, Rec};

///////////////////////////////////////////// messages /////////////////////////////////////////////

#[derive(Clone, Debug, Default, Message, PartialEq)]
pub struct Inner {
    #[prototk(1, sint64)]
    x: i64,
    #[prototk(2, bytes)]
    y: Vec<u8>,
    #[prototk(3, fixed32)]
    z: u32,
}

#[derive(Clone, Debug, Message, PartialEq)]
pub enum Choice {
    #[prototk(1, message)]
    Nothing,
    #[prototk(2, uint64)]
    Num(u64),
    #[prototk(3, string)]
    Name(String),
    #[prototk(4, message)]
    In(Inner),
    #[prototk(5, message)]
    Named {
        #[prototk(1, sint64)]
        x: i64,
        #[prototk(2, bytes)]
        y: Vec<u8>,
    },
    #[prototk(6, sint32)]
    Small(i32),
    #[prototk(7, double)]
    Real(f64),
}

impl Default for Choice {
    fn default() -> Self {
        Choice::Nothing
    }
}

impl Default for Scalars {
    fn default() -> Self {
        Scalars {
            a: 0, b: 0, c: 0, d: 0, e: 0, f: 0, g: 0, h: 0, i: 0, j: 0, k: 0.0, l: 0.0, m: false,
            n: Vec::new(), o: [0u8; 16], p: [0u8; 32], q: [0u8; 64], r: String::new(), s: 0, t: 0,
            u: false,
        }
    }
}

#[derive(Clone, Debug, Message, PartialEq)]
pub struct Scalars {
    #[prototk(1, int32)]
    a: i32,
    #[prototk(2, int64)]
    b: i64,
    #[prototk(3, uint32)]
    c: u32,
    #[prototk(4, uint64)]
    d: u64,
    #[prototk(5, sint32)]
    e: i32,
    #[prototk(6, sint64)]
    f: i64,
    #[prototk(7, fixed32)]
    g: u32,
    #[prototk(8, fixed64)]
    h: u64,
    #[prototk(9, sfixed32)]
    i: i32,
    #[prototk(10, sfixed64)]
    j: i64,
    #[prototk(11, float)]
    k: f32,
    #[prototk(12, double)]
    l: f64,
    #[prototk(13, Bool)]
    m: bool,
    #[prototk(14, bytes)]
    n: Vec<u8>,
    #[prototk(15, bytes16)]
    o: [u8; 16],
    #[prototk(16, bytes32)]
    p: [u8; 32],
    #[prototk(17, bytes64)]
    q: [u8; 64],
    #[prototk(18, string)]
    r: String,
    #[prototk(2047, uint64)]
    s: u64,
    #[prototk(2048, sint32)]
    t: i32,
    #[prototk(536870911, Bool)]
    u: bool,
}

#[derive(Clone, Debug, Default, Message, PartialEq)]
pub struct Containers {
    #[prototk(1, uint64)]
    ou: Option<u64>,
    #[prototk(2, sint32)]
    oi: Option<i32>,
    #[prototk(3, double)]
    od: Option<f64>,
    #[prototk(4, string)]
    os: Option<String>,
    #[prototk(5, bytes)]
    ob: Option<Vec<u8>>,
    #[prototk(6, message)]
    om: Option<Inner>,
    #[prototk(7, uint64)]
    vu: Vec<u64>,
    #[prototk(8, sint64)]
    vi: Vec<i64>,
    #[prototk(9, string)]
    vs: Vec<String>,
    #[prototk(10, message)]
    vm: Vec<Inner>,
    #[prototk(11, message)]
    nested: Inner,
    #[prototk(12, message)]
    choice: Choice,
    #[prototk(13, fixed32)]
    vf: Vec<u32>,
    #[prototk(14, message)]
    oc: Option<Choice>,
    #[prototk(15, message)]
    vc: Vec<Choice>,
    #[prototk(16, float)]
    of: Option<f32>,
    #[prototk(17, bytes32)]
    o32: Option<[u8; 32]>,
}

#[derive(Clone, Debug, Message, PartialEq)]
pub struct WithResult {
    #[prototk(1, message)]
    res: Result<Inner, prototk::SError>,
    #[prototk(2, uint64)]
    after: u64,
}

impl Default for WithResult {
    fn default() -> Self {
        Self {
            res: Ok(Inner::default()),
            after: 0,
        }
    }
}

/// A reader that knows only some of Scalars' fields (for the unknown-field clause).
#[derive(Clone, Debug, Default, Message, PartialEq)]
pub struct ScalarsSubset {
    #[prototk(4, uint64)]
    d: u64,
    #[prototk(6, sint64)]
    f: i64,
    #[prototk(14, bytes)]
    n: Vec<u8>,
    #[prototk(18, string)]
    r: String,
}

//////////////////////////////////////////// generators ////////////////////////////////////////////

fn b_u64(rng: &mut Rng) -> u64 {
    match rng.below(6) {
        0 => *rng.pick(&[0u64, 1, 127, 128, 255, 256, u64::MAX, u64::MAX - 1, 1 << 63, u32::MAX as u64, u32::MAX as u64 + 1]),
        1..=3 => {
            let k = rng.below(64);
            let base = 1u64 << k;
            match rng.below(3) {
                0 => base,
                1 => base.wrapping_sub(1),
                _ => base.wrapping_add(1),
            }
        }
        _ => rng.u64() >> rng.below(64),
    }
}

fn b_i64(rng: &mut Rng) -> i64 {
    let m = b_u64(rng) as i64;
    match rng.below(4) {
        0 => *rng.pick(&[0i64, -1, 1, i64::MIN, i64::MAX, i32::MIN as i64, i32::MAX as i64, i32::MIN as i64 - 1, i32::MAX as i64 + 1]),
        1 => m,
        2 => m.wrapping_neg(),
        _ => !m,
    }
}

fn b_f64(rng: &mut Rng) -> f64 {
    match rng.below(4) {
        0 => *rng.pick(&[0.0f64, -0.0, 1.0, -1.0, f64::INFINITY, f64::NEG_INFINITY, f64::NAN, f64::MIN_POSITIVE, f64::MAX, f64::MIN, f64::EPSILON, 5e-324]),
        1 => f64::from_bits(0x7ff8_0000_0000_0001 | (rng.u64() & 0xffff)), // NaN payloads
        _ => f64::from_bits(rng.u64()),
    }
}

fn b_f32(rng: &mut Rng) -> f32 {
    match rng.below(4) {
        0 => *rng.pick(&[0.0f32, -0.0, 1.0, -1.0, f32::INFINITY, f32::NEG_INFINITY, f32::NAN, f32::MIN_POSITIVE, f32::MAX, f32::MIN, 1e-45]),
        1 => f32::from_bits(0x7fc0_0001 | (rng.u64() as u32 & 0xff)),
        _ => f32::from_bits(rng.u64() as u32),
    }
}

fn b_bytes(rng: &mut Rng) -> Vec<u8> {
    let n = match rng.below(8) {
        0 => 0,
        1 => 1,
        2 => 127,
        3 => 128,
        4 => 129,
        5 => 300 + rng.usize(3000),
        _ => rng.usize(20),
    };
    rng.bytes(n)
}

fn b_string(rng: &mut Rng) -> String {
    let n = match rng.below(6) {
        0 => 0,
        1 => 1,
        2 => 127,
        3 => 128,
        _ => rng.usize(12),
    };
    let chars = ['a', 'Z', '0', '\0', '\u{7f}', '\u{80}', 'é', '\u{800}', '€', '\u{10000}', '😀', ' ', '"'];
    (0..n).map(|_| *rng.pick(&chars)).collect()
}

fn arr<const N: usize>(rng: &mut Rng) -> [u8; N] {
    let mut a = [0u8; N];
    if rng.chance(3, 4) {
        let b = rng.bytes(N);
        a.copy_from_slice(&b);
    }
    a
}

fn gen_inner(rng: &mut Rng) -> Inner {
    Inner {
        x: b_i64(rng),
        y: b_bytes(rng),
        z: b_u64(rng) as u32,
    }
}

fn gen_choice(rng: &mut Rng) -> Choice {
    match rng.below(7) {
        0 => Choice::Nothing,
        1 => Choice::Num(b_u64(rng)),
        2 => Choice::Name(b_string(rng)),
        3 => Choice::In(gen_inner(rng)),
        4 => Choice::Named { x: b_i64(rng), y: b_bytes(rng) },
        5 => Choice::Small(b_i64(rng) as i32),
        _ => Choice::Real(b_f64(rng)),
    }
}

fn gen_scalars(rng: &mut Rng) -> Scalars {
    Scalars {
        a: b_i64(rng) as i32,
        b: b_i64(rng),
        c: b_u64(rng) as u32,
        d: b_u64(rng),
        e: b_i64(rng) as i32,
        f: b_i64(rng),
        g: b_u64(rng) as u32,
        h: b_u64(rng),
        i: b_i64(rng) as i32,
        j: b_i64(rng),
        k: b_f32(rng),
        l: b_f64(rng),
        m: rng.chance(1, 2),
        n: b_bytes(rng),
        o: arr(rng),
        p: arr(rng),
        q: arr(rng),
        r: b_string(rng),
        s: b_u64(rng),
        t: b_i64(rng) as i32,
        u: rng.chance(1, 2),
    }
}

fn opt<T>(rng: &mut Rng, f: impl FnOnce(&mut Rng) -> T) -> Option<T> {
    if rng.chance(1, 2) { Some(f(rng)) } else { None }
}

fn vecn<T>(rng: &mut Rng, mut f: impl FnMut(&mut Rng) -> T) -> Vec<T> {
    let n = match rng.below(4) {
        0 => 0,
        1 => 1,
        _ => rng.usize(6),
    };
    (0..n).map(|_| f(rng)).collect()
}

fn gen_containers(rng: &mut Rng) -> Containers {
    Containers {
        ou: opt(rng, b_u64),
        oi: opt(rng, |r| b_i64(r) as i32),
        od: opt(rng, b_f64),
        os: opt(rng, b_string),
        ob: opt(rng, b_bytes),
        om: opt(rng, gen_inner),
        vu: vecn(rng, b_u64),
        vi: vecn(rng, b_i64),
        vs: vecn(rng, b_string),
        vm: vecn(rng, gen_inner),
        nested: gen_inner(rng),
        choice: gen_choice(rng),
        vf: vecn(rng, |r| b_u64(r) as u32),
        oc: opt(rng, gen_choice),
        vc: vecn(rng, gen_choice),
        of: opt(rng, b_f32),
        o32: opt(rng, arr::<32>),
    }
}

/////////////////////////////////// expected records (from the spec) ///////////////////////////////

fn r_varint(field: u32, x: u64) -> Rec {
    Rec { field, payload: Payload::Varint(x) }
}
fn r_len(field: u32, b: Vec<u8>) -> Rec {
    Rec { field, payload: Payload::Len(b) }
}
fn r_f32(field: u32, b: [u8; 4]) -> Rec {
    Rec { field, payload: Payload::Fixed32(b) }
}
fn r_f64(field: u32, b: [u8; 8]) -> Rec {
    Rec { field, payload: Payload::Fixed64(b) }
}

fn inner_recs(x: &Inner) -> Vec<Rec> {
    vec![
        r_varint(1, wire::zigzag64(x.x)),
        r_len(2, x.y.clone()),
        r_f32(3, x.z.to_le_bytes()),
    ]
}

fn choice_recs(c: &Choice) -> Vec<Rec> {
    match c {
        Choice::Nothing => vec![r_len(1, vec![])],
        Choice::Num(x) => vec![r_varint(2, *x)],
        Choice::Name(s) => vec![r_len(3, s.as_bytes().to_vec())],
        Choice::In(i) => vec![r_len(4, wire::encode(&inner_recs(i)))],
        Choice::Named { x, y } => vec![r_len(
            5,
            wire::encode(&[r_varint(1, wire::zigzag64(*x)), r_len(2, y.clone())]),
        )],
        Choice::Small(x) => vec![r_varint(6, wire::zigzag32(*x))],
        Choice::Real(x) => vec![r_f64(7, x.to_le_bytes())],
    }
}

fn scalars_recs(s: &Scalars) -> Vec<Rec> {
    vec![
        r_varint(1, s.a as i64 as u64),
        r_varint(2, s.b as u64),
        r_varint(3, s.c as u64),
        r_varint(4, s.d),
        r_varint(5, wire::zigzag32(s.e)),
        r_varint(6, wire::zigzag64(s.f)),
        r_f32(7, s.g.to_le_bytes()),
        r_f64(8, s.h.to_le_bytes()),
        r_f32(9, s.i.to_le_bytes()),
        r_f64(10, s.j.to_le_bytes()),
        r_f32(11, s.k.to_le_bytes()),
        r_f64(12, s.l.to_le_bytes()),
        r_varint(13, s.m as u64),
        r_len(14, s.n.clone()),
        r_len(15, s.o.to_vec()),
        r_len(16, s.p.to_vec()),
        r_len(17, s.q.to_vec()),
        r_len(18, s.r.as_bytes().to_vec()),
        r_varint(2047, s.s),
        r_varint(2048, wire::zigzag32(s.t)),
        r_varint(536870911, s.u as u64),
    ]
}

fn containers_recs(c: &Containers) -> Vec<Rec> {
    let mut v = Vec::new();
    if let Some(x) = c.ou {
        v.push(r_varint(1, x));
    }
    if let Some(x) = c.oi {
        v.push(r_varint(2, wire::zigzag32(x)));
    }
    if let Some(x) = c.od {
        v.push(r_f64(3, x.to_le_bytes()));
    }
    if let Some(x) = &c.os {
        v.push(r_len(4, x.as_bytes().to_vec()));
    }
    if let Some(x) = &c.ob {
        v.push(r_len(5, x.clone()));
    }
    if let Some(x) = &c.om {
        v.push(r_len(6, wire::encode(&inner_recs(x))));
    }
    for x in &c.vu {
        v.push(r_varint(7, *x));
    }
    for x in &c.vi {
        v.push(r_varint(8, wire::zigzag64(*x)));
    }
    for x in &c.vs {
        v.push(r_len(9, x.as_bytes().to_vec()));
    }
    for x in &c.vm {
        v.push(r_len(10, wire::encode(&inner_recs(x))));
    }
    v.push(r_len(11, wire::encode(&inner_recs(&c.nested))));
    v.push(r_len(12, wire::encode(&choice_recs(&c.choice))));
    for x in &c.vf {
        v.push(r_f32(13, x.to_le_bytes()));
    }
    if let Some(x) = &c.oc {
        v.push(r_len(14, wire::encode(&choice_recs(x))));
    }
    for x in &c.vc {
        v.push(r_len(15, wire::encode(&choice_recs(x))));
    }
    if let Some(x) = c.of {
        v.push(r_f32(16, x.to_le_bytes()));
    }
    if let Some(x) = &c.o32 {
        v.push(r_len(17, x.to_vec()));
    }
    v
}

/////////////////////////////////////////////// oracles ////////////////////////////////////////////

fn fail(sig: &str, msg: String) -> Result<(), (String, String)> {
    Err((sig.to_string(), msg))
}

/// floats make PartialEq unusable (NaN); compare through the reference encoding of the value
fn same_scalars(a: &Scalars, b: &Scalars) -> bool {
    wire::encode(&scalars_recs(a)) == wire::encode(&scalars_recs(b))
}
fn same_containers(a: &Containers, b: &Containers) -> bool {
    wire::encode(&containers_recs(a)) == wire::encode(&containers_recs(b))
}

/// Lenient wire comparison: per field number the sequence of records must agree.
/// `singular`: field numbers of singular (non-optional, non-repeated, non-one-of) scalar fields;
/// a standard encoder may omit such a field when it holds its default value.
fn records_equivalent(real: &[u8], want: &[Rec], singular: &[u32]) -> Result<(), String> {
    let got = match wire::decode(real) {
        Some(g) => g,
        None => return Err("an independent decoder cannot parse the bytes".into()),
    };
    let mut fields: Vec<u32> = want.iter().map(|r| r.field).chain(got.iter().map(|r| r.field)).collect();
    fields.sort();
    fields.dedup();
    for f in fields {
        let w: Vec<&Rec> = want.iter().filter(|r| r.field == f).collect();
        let g: Vec<&Rec> = got.iter().filter(|r| r.field == f).collect();
        let default_elided = g.is_empty()
            && w.len() == 1
            && singular.contains(&f)
            && match &w[0].payload {
                Payload::Varint(x) => *x == 0,
                Payload::Fixed32(b) => *b == [0u8; 4],
                Payload::Fixed64(b) => *b == [0u8; 8],
                Payload::Len(b) => b.is_empty(),
            };
        if w != g && !default_elided {
            return Err(format!("field {f}: reference records {w:?} vs real {g:?}"));
        }
    }
    Ok(())
}

fn check_message<'a, M>(
    name: &str,
    value: &M,
    recs: &[Rec],
    singular: &[u32],
    same: impl Fn(&M, &M) -> bool,
    buf: &'a mut Vec<u8>,
    rep: &mut Report,
) -> Result<(), (String, String)>
where
    M: Packable + for<'b> Unpackable<'b> + std::fmt::Debug,
    for<'b> <M as Unpackable<'b>>::Error: std::fmt::Debug,
{
    let pa = stack_pack(value);
    let sz = pa.pack_sz();
    *buf = pa.to_vec();
    if buf.len() != sz {
        return fail(&format!("{name}:pack_sz"), format!("pack_sz {sz} but packed {} bytes", buf.len()));
    }
    if value.pack_sz() != sz {
        return fail(&format!("{name}:pack_sz"), format!("value.pack_sz() {} != stack_pack size {sz}", value.pack_sz()));
    }
    let want = wire::encode(recs);
    if *buf != want {
        match records_equivalent(buf, recs, singular) {
            Ok(()) => rep.count("wire.bytes_differ_but_records_equal", 1),
            Err(e) => {
                return fail(&format!("{name}:wire-encoding"), format!("{e}; real {} reference {}", hex(&buf[..buf.len().min(120)]), hex(&want[..want.len().min(120)])));
            }
        }
    } else {
        rep.count("wire.bytes_identical_to_reference", 1);
    }
    let mut up = Unpacker::new(buf.as_slice());
    let got: M = match up.unpack() {
        Ok(g) => g,
        Err(e) => return fail(&format!("{name}:roundtrip"), format!("unpack of own encoding failed: {e:?}; value {value:?}")),
    };
    if !up.remain().is_empty() {
        return fail(&format!("{name}:roundtrip"), format!("unpack left {} bytes", up.remain().len()));
    }
    if !same(value, &got) {
        return fail(&format!("{name}:roundtrip"), format!("value {value:?} came back as {got:?}"));
    }
    Ok(())
}

fn unknown_record(rng: &mut Rng) -> Rec {
    // field numbers no message above uses
    let field = *rng.pick(&[19u32, 100, 1000, 1999, 2049, 100000, 536870910]);
    let payload = match rng.below(4) {
        0 => Payload::Varint(b_u64(rng)),
        1 => Payload::Fixed64(rng.u64().to_le_bytes()),
        2 => Payload::Len(b_bytes(rng)),
        _ => Payload::Fixed32((rng.u64() as u32).to_le_bytes()),
    };
    Rec { field, payload }
}

fn value_case(rng: &mut Rng, rep: &mut Report) -> (u64, bool, serde_json::Value, Result<(), (String, String)>) {
    let kind = rng.below(4);
    let mut h = SHash::default();
    h.u64(kind);
    let mut desc = json!({});
    let r = guarded(|| -> Result<(), (String, String)> {
        let mut buf = Vec::new();
        match kind {
            0 | 1 => {
                let v = gen_scalars(rng);
                let recs = scalars_recs(&v);
                h.bytes(&wire::encode(&recs));
                desc = json!({"message": "Scalars", "value": format!("{v:?}").chars().take(400).collect::<String>()});
                check_message("Scalars", &v, &recs, &[1, 2, 3, 4, 5, 6, 7, 8, 9, 10, 11, 12, 13, 14, 18, 2047, 2048, 536870911], same_scalars, &mut buf, rep)?;
                rep.count("values.scalars", 1);
                // unknown fields at every record boundary; also a reader that knows a subset
                let boundaries: Vec<usize> = {
                    let mut b = vec![0usize];
                    let mut off = 0;
                    for r in &recs {
                        off += wire::encode(std::slice::from_ref(r)).len();
                        b.push(off);
                    }
                    b
                };
                let want_bytes = wire::encode(&recs);
                if want_bytes == buf {
                    for (bi, cut) in boundaries.iter().enumerate() {
                        let unk = unknown_record(rng);
                        let mut m = buf[..*cut].to_vec();
                        m.extend_from_slice(&wire::encode(std::slice::from_ref(&unk)));
                        m.extend_from_slice(&buf[*cut..]);
                        let mut up = Unpacker::new(m.as_slice());
                        match up.unpack::<_, Scalars>() {
                            Ok(g) if same_scalars(&g, &v) => {}
                            other => return fail("Scalars:unknown-field", format!("unknown {unk:?} at boundary {bi}: {:?}", other.map(|g| format!("{g:?}").chars().take(200).collect::<String>()))),
                        }
                        rep.count("unknown_field_injections", 1);
                    }
                    let mut up = Unpacker::new(buf.as_slice());
                    match up.unpack::<_, ScalarsSubset>() {
                        Ok(g) if g.d == v.d && g.f == v.f && g.n == v.n && g.r == v.r => {}
                        other => return fail("Scalars:unknown-field", format!("subset reader: {other:?}")),
                    }
                }
            }
            2 => {
                let v = gen_containers(rng);
                let recs = containers_recs(&v);
                h.bytes(&wire::encode(&recs));
                desc = json!({"message": "Containers", "value": format!("{v:?}").chars().take(400).collect::<String>()});
                check_message("Containers", &v, &recs, &[], same_containers, &mut buf, rep)?;
                rep.count("values.containers", 1);
                let unk = unknown_record(rng);
                let mut m = wire::encode(std::slice::from_ref(&unk));
                m.extend_from_slice(&buf);
                m.extend_from_slice(&wire::encode(std::slice::from_ref(&unk)));
                let mut up = Unpacker::new(m.as_slice());
                match up.unpack::<_, Containers>() {
                    Ok(g) if same_containers(&g, &v) => {}
                    other => return fail("Containers:unknown-field", format!("unknown {unk:?}: {:?}", other.map(|g| format!("{g:?}").chars().take(200).collect::<String>()))),
                }
                rep.count("unknown_field_injections", 2);
            }
            _ => {
                // standalone one-of, Result, and bare field types
                let c = gen_choice(rng);
                let recs = choice_recs(&c);
                h.bytes(&wire::encode(&recs));
                desc = json!({"message": "Choice/Result", "value": format!("{c:?}").chars().take(300).collect::<String>()});
                let same_choice = |a: &Choice, b: &Choice| wire::encode(&choice_recs(a)) == wire::encode(&choice_recs(b));
                check_message("Choice", &c, &recs, &[], same_choice, &mut buf, rep)?;
                let wr = WithResult {
                    res: if rng.chance(1, 2) { Ok(gen_inner(rng)) } else { Err(prototk::unknown_discriminant(b_u64(rng) as u32)) },
                    after: b_u64(rng),
                };
                let b2 = stack_pack(&wr).to_vec();
                if b2.len() != stack_pack(&wr).pack_sz() {
                    return fail("Result:pack_sz", "size mismatch".into());
                }
                let mut up = Unpacker::new(b2.as_slice());
                match up.unpack::<_, WithResult>() {
                    Ok(g) if g == wr && up.remain().is_empty() => {}
                    other => return fail("Result:roundtrip", format!("{wr:?} -> {other:?}")),
                }
                if wire::decode(&b2).is_none() {
                    return fail("Result:wire-encoding", "independent decoder cannot parse".into());
                }
                rep.count("values.choice_result", 1);
            }
        }
        Ok(())
    });
    let r = match r {
        Ok(r) => r,
        Err(p) => Err((format!("panic:{}", panic_site(&p)), format!("panic: {p}"))),
    };
    (h.get(), true, desc, r)
}

fn decode_all(bytes: &[u8]) {
    let mut up = Unpacker::new(bytes);
    let _ = up.unpack::<_, Scalars>();
    let mut up = Unpacker::new(bytes);
    let _ = up.unpack::<_, Containers>();
    let mut up = Unpacker::new(bytes);
    let _ = up.unpack::<_, Choice>();
    let mut up = Unpacker::new(bytes);
    let _ = up.unpack::<_, WithResult>();
    let mut up = Unpacker::new(bytes);
    let _ = up.unpack::<_, Inner>();
    let mut up = Unpacker::new(bytes);
    let _ = up.unpack::<_, ScalarsSubset>();
    let mut err = None;
    let it = prototk::FieldIterator::new(bytes, &mut err);
    for (_tag, _b) in it {}
    let _ = v64::unpack(bytes);
    let mut up = Unpacker::new(bytes);
    let _ = up.unpack::<_, prototk::Tag>();
    let mut up = Unpacker::new(bytes);
    let _ = up.unpack::<_, sst::SstMetadata>();
    let mut up = Unpacker::new(bytes);
    let _ = up.unpack::<_, prototk::SError>();
}

fn hostile_case(rng: &mut Rng, rep: &mut Report) -> (u64, bool, serde_json::Value, Result<(), (String, String)>) {
    let base = match rng.below(3) {
        0 => stack_pack(&gen_scalars(rng)).to_vec(),
        1 => stack_pack(&gen_containers(rng)).to_vec(),
        _ => stack_pack(&gen_choice(rng)).to_vec(),
    };
    let mut bytes = base.clone();
    let style = rng.below(8);
    match style {
        0 => {
            let n = rng.usize(40);
            bytes = rng.bytes(n);
        }
        1 => {
            let l = rng.usize(bytes.len() + 1);
            bytes.truncate(l);
        }
        2 => {
            for _ in 0..1 + rng.usize(3) {
                if !bytes.is_empty() {
                    let i = rng.usize(bytes.len());
                    bytes[i] ^= 1 << rng.below(8);
                }
            }
        }
        3 => {
            // overlong / non-canonical varint spliced in at a record boundary
            let mut v = vec![0x08u8];
            let n = 1 + rng.usize(11);
            for _ in 0..n {
                v.push(0x80 | rng.below(128) as u8);
            }
            v.push(rng.below(128) as u8);
            let at = rng.usize(2) * bytes.len();
            bytes.splice(at..at, v);
        }
        4 => {
            // length-delimited field claiming a huge / non-minimal length
            let mut v = vec![0x72u8];
            match rng.below(3) {
                0 => wire::varint(u64::MAX >> rng.below(40), &mut v),
                1 => v.extend_from_slice(&[0x80, 0x80, 0x80, 0x00]),
                _ => v.extend_from_slice(&[0x85, 0x80, 0x00, 1, 2, 3, 4, 5]),
            }
            let at = rng.usize(2) * bytes.len();
            bytes.splice(at..at, v);
        }
        5 => {
            // group wire types and reserved field numbers
            let tag = ((*rng.pick(&[0u64, 19000, 19999, 1 << 29, (1 << 29) + 1, 5])) << 3) | *rng.pick(&[3u64, 4, 6, 7, 0, 2]);
            let mut v = Vec::new();
            wire::varint(tag, &mut v);
            v.extend_from_slice(&rng.bytes(4));
            let at = rng.usize(2) * bytes.len();
            bytes.splice(at..at, v);
        }
        6 => {
            // nested one-of payload with trailing bytes
            let mut inner = stack_pack(&gen_choice(rng)).to_vec();
            let extra = 1 + rng.usize(4);
            inner.extend_from_slice(&rng.bytes(extra));
            bytes = wire::encode(&[r_len(12, inner.clone()), r_len(14, inner)]);
        }
        _ => {
            let i = rng.usize(bytes.len() + 1);
            let n = 1 + rng.usize(6);
            let ins = rng.bytes(n);
            bytes.splice(i..i, ins);
        }
    }
    let mut h = SHash::default();
    h.u64(style).bytes(&bytes);
    let desc = json!({"hostile_style": style, "bytes": hex(&bytes[..bytes.len().min(200)]), "len": bytes.len()});
    crate::alloc::reset_peak();
    let r = guarded(|| decode_all(&bytes));
    let peak = crate::alloc::peak_request();
    rep.count("hostile_inputs", 1);
    if peak > 16 << 20 {
        rep.count("hostile_inputs.alloc_over_16MiB", 1);
    }
    rep.max("max.hostile_alloc_request", peak as u64);
    let r = match r {
        Ok(()) => Ok(()),
        Err(p) => Err((format!("decoder-panic:{}", panic_site(&p)), format!("panic: {p}"))),
    };
    (h.get(), true, desc, r)
}

fn varint_case(rng: &mut Rng, rep: &mut Report) -> (u64, bool, serde_json::Value, Result<(), (String, String)>) {
    let len = 1 + rng.usize(10);
    let mut v: Vec<u8> = (0..len).map(|_| 0x80 | rng.below(128) as u8).collect();
    let last = len - 1;
    v[last] &= 0x7f;
    match rng.below(4) {
        0 => {
            // canonical encoding of a boundary value
            v.clear();
            wire::varint(b_u64(rng), &mut v);
        }
        1 => {
            // non-canonical: trailing zero groups
            for b in v.iter_mut().skip(len / 2) {
                *b &= 0x80;
            }
        }
        _ => {}
    }
    let mut h = SHash::default();
    h.bytes(&v);
    let desc = json!({"varint": hex(&v)});
    let r = guarded(|| -> Result<(), (String, String)> {
        let reference = wire::read_varint(&v);
        // slow path: exact buffer (< 10 bytes); fast path: padded to >= 10 bytes
        let exact = v64::unpack(&v).map(|(x, rest)| (Into::<u64>::into(x), v.len() - rest.len()));
        let mut padded = v.clone();
        padded.extend_from_slice(&[0xffu8; 12]);
        let fast = v64::unpack(&padded).map(|(x, rest)| (Into::<u64>::into(x), padded.len() - rest.len()));
        let fits = v.len() < 10 || v[9] <= 1;
        match (&exact, &fast) {
            (Ok(a), Ok(b)) => {
                if a != b {
                    return fail("varint:fast-slow-disagree", format!("{}: exact-buffer {a:?} vs padded {b:?}", hex(&v)));
                }
            }
            (Err(_), Err(_)) => {}
            (a, b) => {
                return fail("varint:fast-slow-disagree", format!("{}: exact-buffer {:?} vs padded {:?}", hex(&v), a.as_ref().ok(), b.as_ref().ok()));
            }
        }
        if fits {
            match (&fast, reference) {
                (Ok(a), Some(r)) if *a == r => {}
                (a, r) => return fail("varint:reference-disagree", format!("{}: real {:?} vs reference {r:?}", hex(&v), a.as_ref().ok())),
            }
            // truncations of a valid varint must be errors on the exact-buffer path
            for cut in 0..v.len() {
                if v64::unpack(&v[..cut]).is_ok() {
                    return fail("varint:truncated-accepted", format!("{} cut at {cut} accepted", hex(&v)));
                }
            }
            // pack of the decoded value is canonical and decodes to itself
            let x = v64::from(reference.unwrap().0);
            let packed = stack_pack(x).to_vec();
            let mut canon = Vec::new();
            wire::varint(reference.unwrap().0, &mut canon);
            if packed != canon || x.pack_sz() != canon.len() {
                return fail("varint:pack", format!("value {} packs as {} (reference {})", reference.unwrap().0, hex(&packed), hex(&canon)));
            }
        }
        rep.count(&format!("varints.len{}", v.len()), 1);
        Ok(())
    });
    let r = match r {
        Ok(r) => r,
        Err(p) => Err((format!("panic:{}", panic_site(&p)), format!("panic: {p}"))),
    };
    (h.get(), true, desc, r)
}

pub fn run(args: &Args) {
    let mut rep = Report::new("c15", args);
    rep.max_samples = 4;
    let cases = args.u64("cases", 20000);
    let (seed, shard) = (rep.seed, rep.shard);
    let only = args.opt("case").map(|c| c.parse::<u64>().unwrap());
    for case_no in 0..cases {
        if let Some(o) = only {
            if o != case_no {
                continue;
            }
        }
        crate::alloc::set_case(case_no);
        let mut rng = Rng::derive(seed, "c15", shard, case_no);
        let (h, nontrivial, desc, res) = match case_no % 8 {
            0..=2 => value_case(&mut rng, &mut rep),
            3..=6 => hostile_case(&mut rng, &mut rep),
            _ => varint_case(&mut rng, &mut rep),
        };
        rep.evaluations += 1;
        if nontrivial {
            rep.nontrivial.insert(h);
            if case_no % 1999 < 8 {
                rep.sample(desc.clone());
            }
        }
        if let Err((sig, msg)) = res {
            rep.violation("c15", &sig, json!({"case": desc, "message": msg,
                "replay": format!("vh c15 seed={seed} shard={shard} cases={} case={case_no}", case_no + 1)}));
        }
    }
    rep.finish(args);
}
