//! C17 — the lock-free skiplist loses no insert and always iterates in order; the prepend-only
//! list shows every element exactly once, newest first; iterators stay valid while held.
//!
//! Oracle: every inserter stamps invoke(k) before and done(k) after `insert` from one global
//! logical clock; every observation reads the clock before (s0) and after (s1).  must = keys with
//! done < s0, may = keys with invoke < s1.  See DESIGN.md C17.

use std::sync::atomic::{AtomicBool, AtomicU64, Ordering};
use std::sync::Arc;

use listfree::List;
use serde_json::json;
use skipfree::SkipList;

use crate::util::*;

pub struct Stamps {
    pub clock: AtomicU64,
    pub invoked: Vec<AtomicU64>,
    pub done: Vec<AtomicU64>,
}

impl Stamps {
    pub fn new(n: usize) -> Self {
        Self {
            clock: AtomicU64::new(1),
            invoked: (0..n).map(|_| AtomicU64::new(0)).collect(),
            done: (0..n).map(|_| AtomicU64::new(0)).collect(),
        }
    }
    pub fn tick(&self) -> u64 {
        self.clock.fetch_add(1, Ordering::SeqCst)
    }
    pub fn must(&self, k: usize, s0: u64) -> bool {
        let d = self.done[k].load(Ordering::SeqCst);
        d != 0 && d < s0
    }
    pub fn may(&self, k: usize, s1: u64) -> bool {
        let i = self.invoked[k].load(Ordering::SeqCst);
        i != 0 && i < s1
    }
}

fn value_of(k: u64) -> u64 {
    k.wrapping_mul(0x9E3779B97F4A7C15) ^ 0x5555
}

/// One observation by a reader; returns Err(signature, message) on a refuting observation.
pub fn observe(list: &SkipList<u64, u64>, st: &Stamps, n: usize, rng: &mut Rng, nontrivial: &mut bool) -> Result<&'static str, (String, String)> {
    let kind = rng.below(6);
    let s0 = st.tick();
    match kind {
        0 | 1 => {
            // full forward iteration
            let mut it = list.iter();
            it.seek_to_first();
            let mut keys = Vec::new();
            while it.is_valid() {
                let k = *it.key();
                if *it.value() != value_of(k) {
                    return Err(("skiplist:wrong-value".into(), format!("key {k} carries value {}", it.value())));
                }
                keys.push(k);
                it.next();
            }
            let s1 = st.tick();
            for w in keys.windows(2) {
                if w[0] >= w[1] {
                    return Err(("skiplist:iteration-not-increasing".into(), format!("forward iteration yields {} then {}", w[0], w[1])));
                }
            }
            let set: std::collections::HashSet<u64> = keys.iter().copied().collect();
            for k in 0..n {
                if st.must(k, s0) && !set.contains(&(k as u64)) {
                    return Err(("skiplist:lost-insert-iteration".into(), format!("insert({k}) returned at clock {} before the iteration began at {s0}, yet the iteration ({} keys) does not show it", st.done[k].load(Ordering::SeqCst), keys.len())));
                }
            }
            for k in &keys {
                if *k as usize >= n || !st.may(*k as usize, s1) {
                    return Err(("skiplist:phantom-key".into(), format!("iteration shows key {k} that nobody had started inserting")));
                }
            }
            if !keys.is_empty() && keys.len() < n {
                *nontrivial = true;
            }
            Ok("iterate")
        }
        2 => {
            // backward iteration
            let mut it = list.iter();
            it.seek_to_last();
            it.prev();
            let mut keys = Vec::new();
            while it.is_valid() {
                keys.push(*it.key());
                it.prev();
            }
            let s1 = st.tick();
            for w in keys.windows(2) {
                if w[0] <= w[1] {
                    return Err(("skiplist:iteration-not-decreasing".into(), format!("backward iteration yields {} then {}", w[0], w[1])));
                }
            }
            let set: std::collections::HashSet<u64> = keys.iter().copied().collect();
            for k in 0..n {
                if st.must(k, s0) && !set.contains(&(k as u64)) {
                    return Err(("skiplist:lost-insert-reverse-iteration".into(), format!("insert({k}) returned before the backward iteration began, yet it does not show it")));
                }
            }
            for k in &keys {
                if *k as usize >= n || !st.may(*k as usize, s1) {
                    return Err(("skiplist:phantom-key".into(), format!("backward iteration shows key {k}")));
                }
            }
            if !keys.is_empty() && keys.len() < n {
                *nontrivial = true;
            }
            Ok("iterate-back")
        }
        3 => {
            let k = rng.usize(n);
            let got = list.contains(&(k as u64));
            let s1 = st.tick();
            if st.must(k, s0) && !got {
                return Err(("skiplist:lost-insert-contains".into(), format!("contains({k}) is false although insert({k}) had returned (done at {}, search began at {s0})", st.done[k].load(Ordering::SeqCst))));
            }
            if got && !st.may(k, s1) {
                return Err(("skiplist:phantom-key".into(), format!("contains({k}) is true before any insert of it began")));
            }
            Ok("contains")
        }
        4 => {
            // seek then next
            let k = rng.usize(n);
            let mut it = list.iter();
            it.seek(&(k as u64));
            let r = if it.is_valid() { Some(*it.key()) } else { None };
            let mut nxt = None;
            if it.is_valid() {
                it.next();
                nxt = if it.is_valid() { Some(*it.key()) } else { None };
            }
            let s1 = st.tick();
            let hi = r.map(|r| r as usize).unwrap_or(n);
            if let Some(r) = r {
                if (r as usize) < k {
                    return Err(("skiplist:seek-before-target".into(), format!("seek({k}) landed on {r}")));
                }
                if r as usize >= n || !st.may(r as usize, s1) {
                    return Err(("skiplist:phantom-key".into(), format!("seek({k}) landed on {r}")));
                }
            }
            for m in k..hi.min(n) {
                if st.must(m, s0) {
                    return Err(("skiplist:seek-skipped-key".into(), format!("seek({k}) landed on {r:?} although insert({m}) had returned before the seek began")));
                }
            }
            if let (Some(r), Some(x)) = (r, nxt) {
                if x <= r {
                    return Err(("skiplist:iteration-not-increasing".into(), format!("next after {r} gave {x}")));
                }
                for m in (r as usize + 1)..(x as usize).min(n) {
                    if st.must(m, s0) {
                        return Err(("skiplist:next-skipped-key".into(), format!("next from {r} gave {x}, skipping {m} whose insert had returned")));
                    }
                }
            }
            if let (Some(r), None) = (r, nxt) {
                for m in (r as usize + 1)..n {
                    if st.must(m, s0) {
                        return Err(("skiplist:next-skipped-key".into(), format!("next from {r} reached the end, skipping {m}")));
                    }
                }
            }
            Ok("seek-next")
        }
        _ => {
            // seek then prev
            let k = rng.usize(n);
            let mut it = list.iter();
            it.seek(&(k as u64));
            let r = if it.is_valid() { Some(*it.key()) } else { None };
            it.prev();
            let p = if it.is_valid() { Some(*it.key()) } else { None };
            let s1 = st.tick();
            let upper = r.map(|r| r as usize).unwrap_or(n);
            if let Some(p) = p {
                if p as usize >= upper {
                    return Err(("skiplist:prev-not-smaller".into(), format!("prev from {r:?} gave {p}")));
                }
                if p as usize >= n || !st.may(p as usize, s1) {
                    return Err(("skiplist:phantom-key".into(), format!("prev gave {p}")));
                }
            }
            let lo = p.map(|p| p as usize + 1).unwrap_or(0);
            // keys in (p, min(k, upper)) that were complete before the observation must not be skipped
            for m in lo..k.min(upper).min(n) {
                if st.must(m, s0) {
                    return Err(("skiplist:prev-skipped-key".into(), format!("seek({k}) -> {r:?}, prev -> {p:?}, skipping {m} whose insert had returned")));
                }
            }
            Ok("seek-prev")
        }
    }
}

#[derive(Clone, Copy, Debug)]
enum Pattern {
    Interleaved,
    Ascending,
    Descending,
    Random,
    SharedPredecessor,
}

fn assign(pattern: Pattern, n: usize, inserters: usize, rng: &mut Rng) -> Vec<Vec<u64>> {
    let mut per: Vec<Vec<u64>> = vec![Vec::new(); inserters];
    match pattern {
        Pattern::Interleaved => {
            for k in 0..n {
                per[k % inserters].push(k as u64);
            }
        }
        Pattern::Ascending => {
            for k in 0..n {
                per[k * inserters / n].push(k as u64);
            }
        }
        Pattern::Descending => {
            for k in 0..n {
                per[k * inserters / n].push(k as u64);
            }
            for p in per.iter_mut() {
                p.reverse();
            }
        }
        Pattern::Random => {
            let mut keys: Vec<u64> = (0..n as u64).collect();
            rng.shuffle(&mut keys);
            for (i, k) in keys.into_iter().enumerate() {
                per[i % inserters].push(k);
            }
        }
        Pattern::SharedPredecessor => {
            // all inserters work on the same neighbourhood at the same time: descending within
            // tiny windows so that every insert lands right after the same predecessor
            for w in (0..n).step_by(inserters * 2) {
                let hi = (w + inserters * 2).min(n);
                let mut window: Vec<u64> = (w as u64..hi as u64).collect();
                window.reverse();
                for (i, k) in window.into_iter().enumerate() {
                    per[i % inserters].push(k);
                }
            }
        }
    }
    per
}

fn skiplist_run(rng: &mut Rng, rep: &mut Report, run_no: u64) -> (u64, bool, serde_json::Value, Result<(), (String, String)>) {
    let inserters = 1 + rng.usize(8);
    let readers = 1 + rng.usize(8);
    let n = *rng.pick(&[16usize, 64, 64, 256, 1024]);
    let pattern = *rng.pick(&[Pattern::Interleaved, Pattern::Ascending, Pattern::Descending, Pattern::Random, Pattern::SharedPredecessor, Pattern::SharedPredecessor]);
    let per = assign(pattern, n, inserters, rng);
    let list: Arc<SkipList<u64, u64>> = Arc::new(SkipList::default());
    let st = Arc::new(Stamps::new(n));
    let writers_done = Arc::new(AtomicU64::new(0));
    let failed = Arc::new(AtomicBool::new(false));
    let start = Arc::new(std::sync::Barrier::new(inserters + readers));
    let mut h = SHash::default();
    h.u64(run_no).u64(inserters as u64).u64(readers as u64).u64(n as u64).str(&format!("{pattern:?}"));
    let mut hs = Vec::new();
    for keys in per.into_iter() {
        let (list, st, wd, start) = (Arc::clone(&list), Arc::clone(&st), Arc::clone(&writers_done), Arc::clone(&start));
        let spin = rng.below(3);
        hs.push(std::thread::spawn(move || -> Result<(u64, u64, bool), (String, String)> {
            start.wait();
            for (i, k) in keys.iter().enumerate() {
                st.invoked[*k as usize].store(st.tick(), Ordering::SeqCst);
                list.insert(*k, value_of(*k));
                st.done[*k as usize].store(st.tick(), Ordering::SeqCst);
                if spin == 1 && i % 4 == 0 {
                    std::thread::yield_now();
                }
            }
            wd.fetch_add(1, Ordering::SeqCst);
            Ok((0, 0, false))
        }));
    }
    for r in 0..readers {
        let (list, st, wd, start, failed) = (Arc::clone(&list), Arc::clone(&st), Arc::clone(&writers_done), Arc::clone(&start), Arc::clone(&failed));
        let mut rrng = Rng::derive(rng.u64(), "c17reader", run_no, r as u64);
        hs.push(std::thread::spawn(move || -> Result<(u64, u64, bool), (String, String)> {
            start.wait();
            let mut obs = 0u64;
            let mut mid = 0u64;
            let mut nt = false;
            // observers loop until the writers are finished (plus a few quiescent observations)
            let mut after = 0;
            while after < 6 && !failed.load(Ordering::Relaxed) {
                let running = (wd.load(Ordering::SeqCst) as usize) < inserters;
                if !running {
                    after += 1;
                }
                let mut n2 = false;
                match observe(&list, &st, n, &mut rrng, &mut n2) {
                    Ok(_) => {}
                    Err(e) => {
                        failed.store(true, Ordering::Relaxed);
                        return Err(e);
                    }
                }
                obs += 1;
                if n2 && running {
                    mid += 1;
                    nt = true;
                }
            }
            Ok((obs, mid, nt))
        }));
    }
    let mut res = Ok(());
    let mut observations = 0;
    let mut mid_flight = 0;
    for hnd in hs {
        match hnd.join() {
            Ok(Ok((o, m, _))) => {
                observations += o;
                mid_flight += m;
            }
            Ok(Err(e)) => res = Err(e),
            Err(_) => res = Err(("skiplist:thread-panicked".into(), "a thread panicked".into())),
        }
    }
    // quiescent: everything inserted is there, in order, exactly once
    if res.is_ok() {
        let mut it = list.iter();
        it.seek_to_first();
        let mut keys = Vec::new();
        while it.is_valid() {
            keys.push(*it.key());
            it.next();
        }
        let want: Vec<u64> = (0..n as u64).collect();
        if keys != want {
            let missing: Vec<u64> = want.iter().filter(|k| !keys.contains(k)).copied().take(8).collect();
            res = Err(("skiplist:lost-insert-final".into(), format!("after all {n} inserts returned the list holds {} keys; missing e.g. {missing:?}", keys.len())));
        }
        for k in 0..n as u64 {
            if res.is_ok() && !list.contains(&k) {
                res = Err(("skiplist:lost-insert-contains".into(), format!("final contains({k}) is false")));
            }
        }
    }
    rep.count("skiplist.runs", 1);
    rep.count("skiplist.observations", observations);
    rep.count("skiplist.observations_of_partial_state", mid_flight);
    rep.count("skiplist.inserts", n as u64);
    // iterator held beyond its list (the memory side is judged by ASan / Miri / the registry hook)
    if res.is_ok() {
        let it = {
            let l: SkipList<u64, u64> = SkipList::default();
            for k in 0..32u64 {
                l.insert(k, value_of(k));
            }
            let mut it = l.iter();
            it.seek_to_first();
            it
        };
        let mut it = it;
        let mut got = Vec::new();
        while it.is_valid() {
            got.push((*it.key(), *it.value()));
            it.next();
        }
        if got != (0..32u64).map(|k| (k, value_of(k))).collect::<Vec<_>>() {
            res = Err(("skiplist:iterator-outlives-list".into(), format!("an iterator held after its list was dropped yields {} entries: {:?}", got.len(), &got[..got.len().min(4)])));
        }
        rep.count("skiplist.iterator_outlives_list_probes", 1);
    }
    let desc = json!({"skiplist_run": run_no, "inserters": inserters, "readers": readers, "keys": n, "pattern": format!("{pattern:?}"), "observations": observations, "mid_flight": mid_flight});
    (h.get(), mid_flight > 0, desc, res)
}

fn list_run(rng: &mut Rng, rep: &mut Report, run_no: u64) -> (u64, bool, serde_json::Value, Result<(), (String, String)>) {
    let writers = 1 + rng.usize(8);
    let readers = 1 + rng.usize(4);
    let per = 50 + rng.usize(500);
    let list: Arc<List<u64>> = Arc::new(List::default());
    let n = writers * per;
    let st = Arc::new(Stamps::new(n));
    let wd = Arc::new(AtomicU64::new(0));
    let mut h = SHash::default();
    h.u64(0x115).u64(run_no).u64(writers as u64).u64(per as u64);
    let mut hs = Vec::new();
    for t in 0..writers {
        let (list, st, wd) = (Arc::clone(&list), Arc::clone(&st), Arc::clone(&wd));
        hs.push(std::thread::spawn(move || -> Result<(u64, u64), (String, String)> {
            for i in 0..per {
                let id = t * per + i;
                st.invoked[id].store(st.tick(), Ordering::SeqCst);
                list.prepend(id as u64);
                st.done[id].store(st.tick(), Ordering::SeqCst);
            }
            wd.fetch_add(1, Ordering::SeqCst);
            Ok((0, 0))
        }));
    }
    for _ in 0..readers {
        let (list, st, wd) = (Arc::clone(&list), Arc::clone(&st), Arc::clone(&wd));
        hs.push(std::thread::spawn(move || -> Result<(u64, u64), (String, String)> {
            let mut obs = 0;
            let mut mid = 0;
            let mut after = 0;
            while after < 3 {
                let running = (wd.load(Ordering::SeqCst) as usize) < writers;
                if !running {
                    after += 1;
                }
                let s0 = st.tick();
                let seen: Vec<u64> = list.iter().copied().collect();
                let s1 = st.tick();
                let mut counts: std::collections::HashMap<u64, u32> = std::collections::HashMap::new();
                for x in &seen {
                    *counts.entry(*x).or_insert(0) += 1;
                }
                if let Some((x, c)) = counts.iter().find(|(_, c)| **c > 1) {
                    return Err(("list:element-twice".into(), format!("element {x} appears {c} times in one iteration")));
                }
                for id in 0..n {
                    if st.must(id, s0) && !counts.contains_key(&(id as u64)) {
                        return Err(("list:lost-element".into(), format!("prepend({id}) returned before the iteration began, yet it is missing")));
                    }
                }
                for x in &seen {
                    if *x as usize >= n || !st.may(*x as usize, s1) {
                        return Err(("list:phantom-element".into(), format!("iteration shows {x}")));
                    }
                }
                // newest first: elements of one thread in reverse program order
                let mut last: std::collections::HashMap<usize, u64> = std::collections::HashMap::new();
                for x in &seen {
                    let t = *x as usize / per;
                    if let Some(prev) = last.get(&t) {
                        if *x >= *prev {
                            return Err(("list:order".into(), format!("thread {t}'s elements appear as {prev} then {x}: not newest first")));
                        }
                    }
                    last.insert(t, *x);
                }
                // real-time order: if prepend(a) returned before prepend(b) was invoked, b comes first
                obs += 1;
                if running && !seen.is_empty() {
                    mid += 1;
                }
            }
            Ok((obs, mid))
        }));
    }
    let mut res = Ok(());
    let (mut obs, mut mid) = (0, 0);
    for hnd in hs {
        match hnd.join() {
            Ok(Ok((o, m))) => {
                obs += o;
                mid += m;
            }
            Ok(Err(e)) => res = Err(e),
            Err(_) => res = Err(("list:thread-panicked".into(), "a thread panicked".into())),
        }
    }
    if res.is_ok() {
        let mut seen: Vec<u64> = list.iter().copied().collect();
        seen.sort();
        if seen != (0..n as u64).collect::<Vec<_>>() {
            res = Err(("list:lost-element".into(), format!("final list has {} of {n} elements (or duplicates)", seen.len())));
        }
    }
    rep.count("list.runs", 1);
    rep.count("list.observations", obs);
    rep.count("list.observations_of_partial_state", mid);
    (h.get(), mid > 0, json!({"list_run": run_no, "writers": writers, "readers": readers, "per_writer": per}), res)
}

pub fn run(args: &Args) {
    let mut rep = Report::new("c17", args);
    rep.max_samples = 4;
    let runs = args.u64("runs", 60);
    let list_runs = args.u64("list_runs", 20);
    let (seed, shard) = (rep.seed, rep.shard);
    for n in 0..runs + list_runs {
        let mut rng = Rng::derive(seed, "c17", shard, n);
        let r = guarded(|| if n < runs { skiplist_run(&mut rng, &mut rep, n) } else { list_run(&mut rng, &mut rep, n) });
        let (h, nt, desc, res) = match r {
            Ok(x) => x,
            Err(p) => (n, false, json!({"run": n}), Err((format!("panic:{}", panic_site(&p)), format!("panic: {p}")))),
        };
        rep.evaluations += 1;
        if nt {
            rep.nontrivial.insert(h);
            if n % 13 == 0 {
                rep.sample(desc.clone());
            }
        }
        if let Err((sig, msg)) = res {
            rep.violation("c17", &sig, json!({"case": desc, "message": msg, "replay": format!("vh c17 seed={seed} shard={shard} runs={runs} list_runs={list_runs} (run {n})")}));
        }
    }
    rep.finish(args);
}
