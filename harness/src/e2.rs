//! Engine E2 for the store — crash and fault sweeps of a scripted KeyValueStore history (C02; the
//! crash-point halves of C04 and C08).
//!
//! `script(seed, shard, case)` is a pure function: the child (`e2child`, run under the shim) and
//! the parent both derive the same steps from it.  The child acknowledges every client operation
//! to a file outside the watched root.  The parent kills the child before its n-th watched system
//! call (model a: everything written survives; model b: bytes after each file's last successful
//! sync are cut off), or makes the n-th call fail once with EIO/ENOSPC, then reopens the directory
//! in a fresh un-shimmed process (`e2recover`) and compares what that process reads with
//! apply(P) / apply(P + f): P the acknowledged prefix, f the operation in flight.

use std::collections::{BTreeMap, BTreeSet};
use std::ops::Bound;
use std::path::{Path, PathBuf};
use std::process::Command;

use lsmtk::{KeyValueStore, LsmVerifier, WriteBatch};
use serde_json::json;
use sst::Cursor;

use crate::crash::{self, Acks, Sweep};
use crate::e1::{Config, History};
use crate::r#gen::current_real;
use crate::util::*;

type Op = (Vec<u8>, Option<Vec<u8>>);

#[derive(Clone, Debug)]
pub enum Step {
    Write(Vec<Op>),
    Flush,
    Compact,
    Verify,
    Reopen,
}

impl Step {
    fn kind(&self) -> &'static str {
        match self {
            Step::Write(ops) if ops.len() > 1 => "batch",
            Step::Write(_) => "write",
            Step::Flush => "flush",
            Step::Compact => "compact",
            Step::Verify => "verify",
            Step::Reopen => "reopen",
        }
    }
}

pub struct Script {
    pub cfg: Config,
    pub keys: Vec<Vec<u8>>,
    pub steps: Vec<Step>,
}

pub fn script(seed: u64, shard: u64, case: u64, rounds: u64) -> Script {
    let mut rng = Rng::derive(seed, "e2", shard, case);
    let mut cfg = Config::random(&mut rng, "C02");
    cfg.memtable = *rng.pick(&[1usize, 256, 2048]);
    cfg.target_file = 4096;
    cfg.l0_mandatory = *rng.pick(&[1usize, 2, 2]);
    cfg.l0_stall = *rng.pick(&[4usize, 6, 12]);
    let nkeys = 4 + rng.usize(10);
    let mut keys: Vec<Vec<u8>> = (0..nkeys).map(|i| format!("key{:02}", i * 3).into_bytes()).collect();
    if rng.chance(1, 2) {
        keys.push(vec![]);
        keys.push(vec![0xff; 11]);
    }
    keys.sort();
    let mut steps = Vec::new();
    let mut next_val = 1u64;
    let mut val = |rng: &mut Rng| {
        let id = next_val;
        next_val += 1;
        let mut v = format!("v{id:06}").into_bytes();
        let len = match rng.below(10) {
            0 => 1200 + rng.usize(2500),
            1 => 7,
            _ => 8 + rng.usize(40),
        };
        v.resize(v.len().max(len), b'.');
        v
    };
    let rounds = rounds.max(2);
    if rng.chance(1, 2) {
        // preload: many small overlapping files and a reopen, which gives every one of them a level
        // of its own; from then on compaction steps have to merge and collect instead of moving
        let n = 13 + rng.usize(5);
        for _ in 0..n {
            steps.push(Step::Write(vec![(rng.pick(&keys).clone(), Some(val(&mut rng)))]));
            steps.push(Step::Flush);
        }
        steps.push(Step::Reopen);
    }
    for round in 0..rounds {
      // several flushes in a row put more than one file into L0: the next compaction merges
      let nflush = 1 + rng.usize(3);
      for fl in 0..nflush {
        let nw = 1 + rng.usize(4);
        for _ in 0..nw {
            let kind = rng.below(10);
            let mut ops: Vec<Op> = Vec::new();
            match kind {
                0..=4 => ops.push((rng.pick(&keys).clone(), Some(val(&mut rng)))),
                5 => ops.push((rng.pick(&keys).clone(), None)),
                _ => {
                    let n = 2 + rng.usize(4);
                    let mut used = BTreeSet::new();
                    for _ in 0..n {
                        let k = rng.pick(&keys).clone();
                        if !used.insert(k.clone()) {
                            continue;
                        }
                        if rng.chance(1, 4) {
                            ops.push((k, None));
                        } else {
                            let v = val(&mut rng);
                            ops.push((k, Some(v)));
                        }
                    }
                }
            }
            steps.push(Step::Write(ops));
        }
        steps.push(Step::Flush);
        let _ = fl;
      }
        for _ in 0..2 + rng.usize(5) {
            steps.push(Step::Compact);
        }
        if rng.chance(1, 3) || round + 1 == rounds {
            steps.push(Step::Verify);
        }
        if rng.chance(1, 4) {
            steps.push(Step::Reopen);
        }
        if rng.chance(1, 5) {
            steps.push(Step::Verify);
            steps.push(Step::Verify);
        }
    }
    // leave some acknowledged writes in the log only
    for _ in 0..1 + rng.usize(3) {
        steps.push(Step::Write(vec![(rng.pick(&keys).clone(), Some(val(&mut rng)))]));
    }
    Script { cfg, keys, steps }
}

type Model = BTreeMap<Vec<u8>, Option<Vec<u8>>>;

fn apply(model: &mut Model, ops: &[Op]) {
    for (k, v) in ops {
        model.insert(k.clone(), v.clone());
    }
}

////////////////////////////////////////////// child ///////////////////////////////////////////////

fn shim_calls() -> u64 {
    let sym = unsafe { libc::dlsym(libc::RTLD_DEFAULT, c"vshim_calls".as_ptr()) };
    if sym.is_null() {
        return 0;
    }
    let f: extern "C" fn() -> libc::c_ulong = unsafe { std::mem::transmute(sym) };
    f() as u64
}

fn watchdog(secs: u64) {
    std::thread::spawn(move || {
        std::thread::sleep(std::time::Duration::from_secs(secs));
        eprintln!("child watchdog fired");
        std::process::exit(99);
    });
}

fn open_store(cfg: &Config, root: &str) -> Result<KeyValueStore, String> {
    KeyValueStore::open(cfg.options(root)).map_err(|e| e.to_string())
}

pub fn run_child(args: &Args) {
    let seed = args.u64("seed", 1);
    let shard = args.u64("shard", 0);
    let case_no = args.u64("case", 0);
    let rounds = args.u64("rounds", 5);
    let root = args.str("root", "");
    let mut acks = crash::AckLog::create(&args.str("acks", ""));
    watchdog(args.u64("watchdog", 120));
    lsmtk::verif::set_single_step(true);
    let sc = script(seed, shard, case_no, rounds);
    let mut kvs = match open_store(&sc.cfg, &root) {
        Ok(k) => k,
        Err(e) => {
            acks.note(&format!("open-error {e}"));
            std::process::exit(0);
        }
    };
    acks.note("opened");
    for (i, step) in sc.steps.iter().enumerate() {
        acks.note(&format!("step {i} {} {}", step.kind(), shim_calls()));
        match step {
            Step::Write(ops) => {
                acks.invoke(i as u64);
                let r = if ops.len() == 1 {
                    match &ops[0].1 {
                        Some(v) => kvs.put(&ops[0].0, v),
                        None => kvs.del(&ops[0].0),
                    }
                } else {
                    let mut wb = WriteBatch::with_capacity(ops.len());
                    for (k, v) in ops {
                        match v {
                            Some(v) => wb.put(k, v),
                            None => wb.del(k),
                        }
                    }
                    kvs.write(wb)
                };
                match r {
                    Ok(()) => acks.ack(i as u64),
                    Err(e) => {
                        acks.error(i as u64, &e.to_string());
                        // a caller that is told its write failed stops
                        std::process::exit(0);
                    }
                }
            }
            Step::Flush => {
                if kvs.verif_state().0 == 0 {
                    continue;
                }
                let tree = kvs.verif_tree();
                let mut guard = 0;
                while tree.verif_should_stall() && guard < 200 {
                    guard += 1;
                    let before = lsmtk::verif::COMPACTIONS_DONE.load(std::sync::atomic::Ordering::SeqCst);
                    if let Err(e) = kvs.compaction_thread() {
                        acks.note(&format!("maintenance-error compaction {e}"));
                        std::process::exit(0);
                    }
                    if lsmtk::verif::COMPACTIONS_DONE.load(std::sync::atomic::Ordering::SeqCst) == before {
                        break;
                    }
                }
                if tree.verif_should_stall() {
                    acks.note("flush-skipped-stalled");
                    continue;
                }
                if kvs.verif_request_flush() {
                    if let Err(e) = kvs.memtable_thread() {
                        acks.note(&format!("maintenance-error flush {e}"));
                        std::process::exit(0);
                    }
                }
            }
            Step::Compact => {
                if let Err(e) = kvs.compaction_thread() {
                    acks.note(&format!("maintenance-error compaction {e}"));
                    std::process::exit(0);
                }
            }
            Step::Verify => {
                let r = LsmVerifier::open(sc.cfg.options(&root)).and_then(|mut v| v.verify());
                if let Err(e) = r {
                    if lsmtk::error_code(&e) != Some(lsmtk::CODE_BACKOFF) {
                        acks.note(&format!("verifier-error {e}"));
                    }
                }
            }
            Step::Reopen => {
                drop(kvs);
                kvs = match open_store(&sc.cfg, &root) {
                    Ok(k) => k,
                    Err(e) => {
                        acks.note(&format!("reopen-error {e}"));
                        std::process::exit(0);
                    }
                };
                // a tree that recovery built with a whole overlap component in one level (the
                // known C01 finding) makes later compactions assert: the script ends here, the
                // steps so far stand
                let mut h = History::attach(Path::new(&root), sc.cfg.clone(), sc.keys.clone());
                h.levels_override = Some(kvs.verif_tree().verif_levels());
                if let Err(v) = h.check_structure(true) {
                    acks.note(&format!("done {i}"));
                    acks.note(&format!("script-ends-early structure {}", v.sig));
                    drop(kvs);
                    std::process::exit(0);
                }
            }
        }
        if std::env::var("VH_TRACE_LEVELS").is_ok() {
            let shape: Vec<usize> = kvs.verif_tree().verif_levels().iter().map(|l| l.len()).collect();
            eprintln!("step {i} {} -> {shape:?} cfg {:?}", step.kind(), (sc.cfg.l0_mandatory, sc.cfg.l0_stall, sc.cfg.memtable));
        }
        acks.note(&format!("done {i}"));
    }
    acks.note(&format!("finished {}", shim_calls()));
    drop(kvs);
    std::process::exit(0);
}

/// Child of the second-crash sweep: recovery itself (open, close) under the shim.
pub fn run_recover_child(args: &Args) {
    let seed = args.u64("seed", 1);
    let shard = args.u64("shard", 0);
    let case_no = args.u64("case", 0);
    let rounds = args.u64("rounds", 5);
    let root = args.str("root", "");
    watchdog(60);
    lsmtk::verif::set_single_step(true);
    let sc = script(seed, shard, case_no, rounds);
    match open_store(&sc.cfg, &root) {
        Ok(k) => drop(k),
        Err(e) => {
            eprintln!("recovery-open-error {e}");
            std::process::exit(3);
        }
    }
    std::process::exit(0);
}

///////////////////////////////////////////// recovery /////////////////////////////////////////////

fn read_all(kvs: &KeyValueStore, keys: &[Vec<u8>]) -> Result<(Vec<(Vec<u8>, Option<Vec<u8>>)>, Vec<(Vec<u8>, Option<Vec<u8>>)>), String> {
    let mut state = Vec::new();
    for k in keys {
        let mut tomb = false;
        let v = kvs.load(k, &mut tomb).map_err(|e| format!("load({}): {e}", show(k)))?;
        state.push((k.clone(), v));
    }
    let (sb, eb): (Bound<Vec<u8>>, Bound<Vec<u8>>) = (Bound::Unbounded, Bound::Unbounded);
    let mut c = kvs.range_scan(&sb, &eb).map_err(|e| format!("range_scan: {e}"))?;
    c.seek_to_first().map_err(|e| format!("scan seek_to_first: {e}"))?;
    let mut scan = Vec::new();
    loop {
        c.next().map_err(|e| format!("scan next: {e}"))?;
        match current_real(&c) {
            Some(e) => scan.push((e.key, e.value)),
            None => break,
        }
        if scan.len() > 100_000 {
            return Err("scan does not terminate".into());
        }
    }
    Ok((state, scan))
}

/// Fresh process, no shim: open what the crash left, read everything, reopen, read again.
pub fn run_recover(args: &Args) {
    let seed = args.u64("seed", 1);
    let shard = args.u64("shard", 0);
    let case_no = args.u64("case", 0);
    let rounds = args.u64("rounds", 5);
    let root = args.str("root", "");
    let out = args.str("out", "");
    watchdog(120);
    quiet_panics();
    lsmtk::verif::set_single_step(true);
    let sc = script(seed, shard, case_no, rounds);
    let mut probes = sc.keys.clone();
    probes.push(b"never-written".to_vec());
    let enc = |v: &Vec<(Vec<u8>, Option<Vec<u8>>)>| -> serde_json::Value { json!(v.iter().map(|(k, v)| json!([hex(k), v.as_ref().map(|x| hex(x))])).collect::<Vec<_>>()) };
    let mut res = serde_json::Map::new();
    let verdict = guarded(|| -> Result<(), String> {
        // open through the stepper's history object so that the recovered tree can be given the
        // structural check: the known recovery defect (a whole overlap component placed in one
        // level) explains wrong scans and asserting compactions downstream
        let mut h = History::attach(Path::new(&root), sc.cfg.clone(), sc.keys.clone());
        h.crash_image = true;
        h.open().map_err(|v| format!("open: {}", v.msg))?;
        let mut known_structure = false;
        if let Err(v) = h.check_structure(true) {
            res.insert("structure".into(), json!({"sig": v.sig, "msg": v.msg}));
            known_structure = true;
        }
        let kvs = h.kvs().ok_or("open gave no store")?;
        let (state, scan) = read_all(kvs, &probes)?;
        res.insert("state".into(), enc(&state));
        res.insert("scan".into(), enc(&scan));
        let shape: Vec<usize> = kvs.verif_tree().verif_levels().iter().map(|l| l.len()).collect();
        res.insert("shape".into(), json!(shape));
        h.close();
        // the ledger of the recovered directory (C04 at crash points)
        let lr = h.check_ledger();
        if let Some(n) = h.cov.get("c04.crash_images_manifest_verifier_rejects") {
            res.insert("manifest_verifier_rejects".into(), json!([n, h.steps.last()]));
        }
        if let Err(vi) = lr {
            res.insert("ledger".into(), json!({"sig": vi.sig, "msg": vi.msg}));
        }
        let kvs = open_store(&sc.cfg, &root).map_err(|e| format!("second open: {e}"))?;
        let (state2, scan2) = read_all(&kvs, &probes)?;
        res.insert("second_open_same".into(), json!(state2 == state && scan2 == scan));
        if known_structure {
            // maintenance on a tree whose levels overlap is not meaningful
            drop(kvs);
            return Ok(());
        }
        // the recovered store accepts and serves a new write, and maintenance runs
        kvs.put(b"post-recovery", b"yes").map_err(|e| format!("put after recovery: {e}"))?;
        let mut tomb = false;
        let got = kvs.load(b"post-recovery", &mut tomb).map_err(|e| format!("load after recovery: {e}"))?;
        if got.as_deref() != Some(b"yes".as_slice()) {
            return Err("write after recovery not readable".into());
        }
        // never let the single thread block in a stalled ingest
        let tree = kvs.verif_tree();
        let mut guard = 0;
        while tree.verif_should_stall() && guard < 200 {
            guard += 1;
            let before = lsmtk::verif::COMPACTIONS_DONE.load(std::sync::atomic::Ordering::SeqCst);
            kvs.compaction_thread().map_err(|e| format!("compaction after recovery: {e}"))?;
            if lsmtk::verif::COMPACTIONS_DONE.load(std::sync::atomic::Ordering::SeqCst) == before {
                break;
            }
        }
        if !tree.verif_should_stall() && kvs.verif_request_flush() {
            kvs.memtable_thread().map_err(|e| format!("flush after recovery: {e}"))?;
        }
        kvs.compaction_thread().map_err(|e| format!("compaction after recovery: {e}"))?;
        let (state3, _) = read_all(&kvs, &probes)?;
        res.insert("after_maintenance_same".into(), json!(state3 == state));
        drop(kvs);
        Ok(())
    });
    match verdict {
        Ok(Ok(())) => {
            res.insert("open".into(), json!("ok"));
        }
        Ok(Err(e)) => {
            res.insert("open".into(), json!(format!("error:{e}")));
        }
        Err(p) => {
            res.insert("open".into(), json!(format!("panic:{}", panic_site(&p))));
            res.insert("panic".into(), json!(p));
        }
    }
    let text = serde_json::Value::Object(res).to_string();
    if out.is_empty() {
        println!("{text}");
    } else {
        let _ = std::fs::write(&out, text);
    }
    std::process::exit(0);
}

////////////////////////////////////////////// parent //////////////////////////////////////////////

struct Recovered {
    open: String,
    state: Model,
    scan: Vec<(Vec<u8>, Option<Vec<u8>>)>,
    second_open_same: Option<bool>,
    after_maintenance_same: Option<bool>,
    ledger: Option<(String, String)>,
    structure: Option<(String, String)>,
    raw: serde_json::Value,
}

fn recover(root: &Path, base: &[String], out: &Path) -> Result<Recovered, String> {
    let _ = std::fs::remove_file(out);
    let exe = std::env::current_exe().map_err(|e| e.to_string())?;
    let o = Command::new(exe)
        .arg("e2recover")
        .args(base)
        .arg(format!("root={}", root.display()))
        .arg(format!("out={}", out.display()))
        .env_remove("LD_PRELOAD")
        .output()
        .map_err(|e| e.to_string())?;
    let code = o.status.code().unwrap_or(-1);
    let text = std::fs::read_to_string(out).unwrap_or_default();
    if text.is_empty() {
        let tail = String::from_utf8_lossy(&o.stderr).to_string();
        let tail = if tail.len() > 500 { tail[tail.len() - 500..].to_string() } else { tail };
        if code == 99 {
            return Err("inconclusive: recovery process hit its watchdog".into());
        }
        // died without a report: abort inside recovery
        return Ok(Recovered {
            open: format!("died:exit={code}:{}", panic_site(&tail)),
            state: Model::new(),
            scan: Vec::new(),
            second_open_same: None,
            after_maintenance_same: None,
            ledger: None,
            structure: None,
            raw: json!({"stderr": tail}),
        });
    }
    let j: serde_json::Value = serde_json::from_str(&text).map_err(|e| format!("recover output: {e}"))?;
    let dec = |v: &serde_json::Value| -> Vec<(Vec<u8>, Option<Vec<u8>>)> {
        v.as_array()
            .map(|a| a.iter().map(|p| (unhex(p[0].as_str().unwrap_or("")), p[1].as_str().map(unhex))).collect())
            .unwrap_or_default()
    };
    let _ = std::fs::remove_file(out);
    Ok(Recovered {
        open: j["open"].as_str().unwrap_or("?").to_string(),
        state: dec(&j["state"]).into_iter().collect(),
        scan: dec(&j["scan"]),
        second_open_same: j["second_open_same"].as_bool(),
        after_maintenance_same: j["after_maintenance_same"].as_bool(),
        ledger: j.get("ledger").filter(|l| l.is_object()).map(|l| (l["sig"].as_str().unwrap_or("").to_string(), l["msg"].as_str().unwrap_or("").to_string())),
        structure: j.get("structure").filter(|l| l.is_object()).map(|l| (l["sig"].as_str().unwrap_or("").to_string(), l["msg"].as_str().unwrap_or("").to_string())),
        raw: j,
    })
}

/// The step the child was in when it stopped, from its notes.
fn last_step(acks: &Acks) -> (Option<usize>, String, bool) {
    let mut cur: Option<(usize, String)> = None;
    let mut done = true;
    for n in &acks.notes {
        let mut it = n.split_whitespace();
        match it.next() {
            Some("step") => {
                let i = it.next().and_then(|x| x.parse().ok()).unwrap_or(0);
                cur = Some((i, it.next().unwrap_or("?").to_string()));
                done = false;
            }
            Some("done") => done = true,
            _ => {}
        }
    }
    match cur {
        Some((i, k)) => (Some(i), k, done),
        None => (None, "open".to_string(), false),
    }
}

struct Verdict {
    sig: String,
    msg: String,
}

/// Compare a recovered image with the acknowledged prefix.
fn judge(sc: &Script, acks: &Acks, rec: &Recovered, what: &str) -> Option<Verdict> {
    let (_, kind, done) = last_step(acks);
    let during = if done { "between-steps".to_string() } else { format!("during-{kind}") };
    if let Some((sig, msg)) = &rec.structure {
        // one signature whatever the crash point: the defect is in what recovery builds
        return Some(Verdict { sig: sig.clone(), msg: format!("the tree recovery built violates the level invariant: {msg}") });
    }
    if rec.open != "ok" {
        let class = if rec.open.starts_with("panic") || rec.open.starts_with("died") { "recovery-panics" } else { "recovery-fails" };
        let code = if rec.open.starts_with("error:") { crate::e1::err_code(&rec.open) } else { rec.open.split(':').skip(1).collect::<Vec<_>>().join(":") };
        return Some(Verdict { sig: format!("{what}:{class}:{during}:{code}"), msg: format!("the store does not reopen: {}", rec.open) });
    }
    // candidate models
    let mut p = Model::new();
    let mut pf: Option<Model> = None;
    let mut maybe: Vec<usize> = Vec::new();
    for (i, step) in sc.steps.iter().enumerate() {
        if let Step::Write(ops) = step {
            let i = i as u64;
            if acks.acked.contains(&i) {
                apply(&mut p, ops);
            } else if acks.invoked.contains(&i) {
                // in flight at the crash, or reported failed: it may or may not have happened
                let mut m = p.clone();
                apply(&mut m, ops);
                pf = Some(m);
                maybe.push(i as usize);
            }
        }
    }
    let view = |m: &Model, k: &Vec<u8>| m.get(k).cloned().unwrap_or(None);
    let matches = |m: &Model| sc.keys.iter().all(|k| view(m, k) == view(&rec.state, k));
    let ok_p = matches(&p);
    let ok_pf = pf.as_ref().map(|m| matches(m)).unwrap_or(false);
    if !ok_p && !ok_pf {
        // classify
        let mut lost = Vec::new();
        let mut partial = pf.is_some();
        for k in &sc.keys {
            let got = view(&rec.state, k);
            let want = view(&p, k);
            let alt = pf.as_ref().map(|m| view(m, k));
            if got != want && Some(got.clone()) != alt {
                partial = false;
                lost.push(format!("{}: read {:?}, acknowledged prefix has {:?}", show(k), got.as_ref().map(|x| show(&x[..x.len().min(12)])), want.as_ref().map(|x| show(&x[..x.len().min(12)]))));
            }
        }
        let class = if partial { "in-flight-batch-partially-applied" } else { "acknowledged-write-lost-or-altered" };
        let mut detail = lost;
        if partial {
            let f = maybe.last().copied().unwrap_or(0);
            if let Step::Write(ops) = &sc.steps[f] {
                for (k, _) in ops {
                    let got = view(&rec.state, k);
                    detail.push(format!("{}: {}", show(k), if got == view(&p, k) { "old" } else { "new" }));
                }
            }
        }
        return Some(Verdict { sig: format!("{what}:{class}:{during}"), msg: format!("after recovery the store matches neither apply(P) nor apply(P+f); |P| = {} acknowledged writes, in flight: {:?}; {}", acks.acked.len(), maybe, detail.join("; ")) });
    }
    let chosen = if ok_p { &p } else { pf.as_ref().unwrap() };
    // the full scan tells the same story
    let want_scan: Vec<(Vec<u8>, Option<Vec<u8>>)> = chosen.iter().filter(|(_, v)| v.is_some()).map(|(k, v)| (k.clone(), v.clone())).collect();
    let got_scan: Vec<(Vec<u8>, Option<Vec<u8>>)> = rec.scan.iter().filter(|(_, v)| v.is_some()).cloned().collect();
    if want_scan != got_scan {
        return Some(Verdict { sig: format!("{what}:scan-disagrees-with-loads:{during}"), msg: format!("point reads match the acknowledged prefix but a full scan returns {} live entries where {} are expected", got_scan.len(), want_scan.len()) });
    }
    if rec.second_open_same == Some(false) {
        return Some(Verdict { sig: format!("{what}:second-reopen-differs:{during}"), msg: "reopening the recovered store a second time changes what it reads".into() });
    }
    if rec.after_maintenance_same == Some(false) {
        return Some(Verdict { sig: format!("{what}:maintenance-after-recovery-changes-contents:{during}"), msg: "a flush and a compaction step after recovery changed what the store reads".into() });
    }
    None
}

fn copy_dir(from: &Path, to: &Path) -> Result<(), String> {
    let _ = std::fs::remove_dir_all(to);
    let st = Command::new("cp").arg("-a").arg(from).arg(to).status().map_err(|e| e.to_string())?;
    if st.success() { Ok(()) } else { Err("cp failed".into()) }
}

pub fn run(args: &Args) {
    let focus = args.str("focus", "C02");
    let mut rep = Report::new(&format!("e2:{focus}"), args);
    rep.max_samples = 4;
    let cases = args.u64("cases", 2);
    let rounds = args.u64("rounds", 5);
    let max_points = args.u64("points", 60) as usize;
    let fault_points = args.u64("faults", 30) as usize;
    let second = args.u64("second", 6) as usize;
    let (seed, shard) = (rep.seed, rep.shard);
    let scratch = Scratch::new("e2");
    let only = args.opt("case").map(|c| c.parse::<u64>().unwrap());
    let only_point = args.opt("point").map(|c| c.parse::<u64>().unwrap());
    let mut ledger_other: BTreeMap<String, u64> = BTreeMap::new();
    for case_no in 0..cases {
        if only.is_some() && only != Some(case_no) {
            continue;
        }
        let sc = script(seed, shard, case_no, rounds);
        let base: Vec<String> = vec![format!("seed={seed}"), format!("shard={shard}"), format!("case={case_no}"), format!("rounds={rounds}")];
        let mut child_args = vec!["e2child".to_string()];
        child_args.extend(base.iter().cloned());
        let sweep = Sweep::new(&scratch, &format!("s{shard}c{case_no}"), child_args);
        let out = scratch.path.join(format!("s{shard}c{case_no}-recover.json"));
        // fault-free run: count calls, learn which calls belong to which step
        let total = match sweep.count_calls() {
            Ok(n) => n,
            Err(e) => {
                rep.inconclusive.push(format!("case {case_no}: {e}"));
                continue;
            }
        };
        // step boundaries (by call number) from a traced fault-free run
        let boundaries: Vec<(u64, String)> = {
            let r = sweep.fail_at(u64::MAX / 2, libc::EIO);
            match r {
                Ok(run) => {
                    let b = run
                        .acks
                        .notes
                        .iter()
                        .filter_map(|n| {
                            let mut it = n.split_whitespace();
                            if it.next() == Some("step") {
                                let _i = it.next();
                                let kind = it.next()?.to_string();
                                let calls = it.next()?.parse::<u64>().ok()?;
                                Some((calls, kind))
                            } else {
                                None
                            }
                        })
                        .collect();
                    // the fault-free image must satisfy the oracle as well
                    match recover(&run.root, &base, &out) {
                        Ok(rec) => {
                            if let Some(vd) = judge(&sc, &run.acks, &rec, "no-fault").filter(|_| focus != "C04") {
                                rep.violation(&format!("e2:{focus}"), &vd.sig, json!({"case": case_no, "message": vd.msg, "config": sc.cfg.json()}));
                            }
                        }
                        Err(e) => rep.inconclusive.push(format!("case {case_no} fault-free image: {e}")),
                    }
                    run.cleanup();
                    b
                }
                Err(e) => {
                    rep.inconclusive.push(format!("case {case_no}: {e}"));
                    continue;
                }
            }
        };
        let step_of = |n: u64| -> String {
            // the n-th call happens after `calls` calls were made at the step's start
            let mut kind = "open".to_string();
            for (calls, k) in &boundaries {
                if *calls < n {
                    kind = k.clone();
                } else {
                    break;
                }
            }
            kind
        };
        rep.count("calls.watched_in_fault_free_runs", total);
        for (i, (calls, kind)) in boundaries.iter().enumerate() {
            let end = boundaries.get(i + 1).map(|b| b.0).unwrap_or(total);
            rep.count(&format!("calls.in_steps.{kind}"), end.saturating_sub(*calls));
        }
        let kinds: BTreeSet<&'static str> = sc.steps.iter().map(|s| s.kind()).collect();
        let mut points = crash::pick_points(total, max_points, seed ^ (shard << 20) ^ case_no);
        if focus == "C08" {
            // crash points inside verifier passes and inside the steps that move files to trash
            let all: Vec<u64> = (1..=total).filter(|n| matches!(step_of(*n).as_str(), "verify" | "flush" | "compact" | "reopen")).collect();
            let idx = crash::pick_points(all.len() as u64, max_points, seed ^ case_no);
            points = idx.into_iter().map(|i| all[(i - 1) as usize]).collect();
        }
        if let Some(p) = only_point {
            points = vec![p];
        }
        let mut hh = SHash::default();
        hh.u64(seed).u64(shard).u64(case_no).u64(total);
        let nontrivial = kinds.contains("flush") && kinds.contains("compact") && total > 50;
        if nontrivial {
            rep.nontrivial.insert(hh.get());
            if rep.want_sample() {
                rep.sample(json!({"case": case_no, "config": sc.cfg.json(), "keys": sc.keys.len(), "steps": sc.steps.iter().map(|s| s.kind()).collect::<Vec<_>>().join(" "),
                    "watched_calls": total, "crash_points": points.len()}));
            }
        }
        let mut second_done = 0usize;
        for &n in &points {
            for model_b in [false, true] {
                let what = if model_b { "crash-b" } else { "crash-a" };
                let run = match sweep.crash_at(n, model_b) {
                    Ok(r) => r,
                    Err(e) => {
                        // the run finished before call n (hash-order dependent call counts)
                        rep.count("crash.points_not_reached", 1);
                        if e.contains("exit 99") {
                            rep.inconclusive.push(format!("case {case_no} point {n}: {e}"));
                        }
                        continue;
                    }
                };
                let (_, kind, done) = last_step(&run.acks);
                rep.count(&format!("crash.points.{}", if done { "between".to_string() } else { kind.clone() }), 1);
                rep.count(if model_b { "crash.images_model_b" } else { "crash.images_model_a" }, 1);
                if run.bytes_dropped > 0 {
                    rep.count("crash.images_with_unsynced_bytes_dropped", 1);
                }
                if run.acks.in_flight().is_some() {
                    rep.count("crash.images_with_write_in_flight", 1);
                }
                let mut ih = SHash::default();
                ih.u64(hh.get()).u64(n).u64(model_b as u64);
                rep.nontrivial.insert(ih.get());
                rep.evaluations += 1;
                match recover(&run.root, &base, &out) {
                    Err(e) => rep.inconclusive.push(format!("case {case_no} point {n}: {e}")),
                    Ok(rec) => {
                        if let Some((sig, msg)) = &rec.ledger {
                            // C04 at crash points: reported by focus=C04 runs
                            if focus == "C04" {
                                rep.violation("e2:C04", &format!("{what}:ledger:{sig}"), json!({"case": case_no, "point": n, "message": msg,
                                    "replay": format!("vh e2 focus=C04 seed={seed} shard={shard} cases={} rounds={rounds} case={case_no} point={n}", case_no + 1)}));
                            } else {
                                *ledger_other.entry(sig.clone()).or_insert(0) += 1;
                            }
                        } else {
                            rep.count("ledger.recovered_images_balanced", 1);
                        }
                        if rec.raw.get("manifest_verifier_rejects").is_some() {
                            rep.count("ledger.recovered_images_the_manifest_verifier_rejects", 1);
                        }
                        if let Some(vd) = judge(&sc, &run.acks, &rec, what) {
                            let in_verify = kind == "verify" && !done;
                            let mine = match focus.as_str() {
                                "C08" => true,
                                "C04" => false,
                                _ => true,
                            };
                            if mine {
                                rep.violation(&format!("e2:{focus}"), &vd.sig, json!({"case": case_no, "point": n, "of": total, "model": what, "message": vd.msg,
                                    "config": sc.cfg.json(), "in_verifier_pass": in_verify, "acked": run.acks.acked.len(), "recovered": rec.raw.get("shape"),
                                    "replay": format!("vh e2 focus={focus} seed={seed} shard={shard} cases={} rounds={rounds} case={case_no} point={n}", case_no + 1)}));
                            }
                        } else {
                            rep.count("recoveries.matched_acknowledged_prefix", 1);
                        }
                        // second crash, inside recovery
                        if second_done < second && !model_b && only_point.is_none() && focus != "C04" {
                            second_done += 1;
                            let mut rargs = vec!["e2recoverchild".to_string()];
                            rargs.extend(base.iter().cloned());
                            let mut s2 = Sweep::new(&scratch, &format!("s{shard}c{case_no}r"), rargs);
                            s2.fresh = false;
                            let image = scratch.path.join(format!("s{shard}c{case_no}-image"));
                            // the first recovery already ran on run.root; take a new image
                            if let Some(again) = sweep.crash_at(n, false).ok().filter(|a| a.root.is_dir()) {
                                let _ = copy_dir(&again.root, &image);
                                let acks1 = again.acks.clone();
                                again.cleanup();
                                let _ = copy_dir(&image, &s2.root());
                                if let Ok(rtotal) = s2.count_calls() {
                                    rep.count("calls.watched_in_recoveries", rtotal);
                                    let pts = crash::pick_points(rtotal, 4, seed ^ n);
                                    for m in pts {
                                        let _ = copy_dir(&image, &s2.root());
                                        if let Ok(r2) = s2.crash_at(m, false) {
                                            rep.count("crash.second_crashes_inside_recovery", 1);
                                            rep.evaluations += 1;
                                            match recover(&r2.root, &base, &out) {
                                                Err(e) => rep.inconclusive.push(format!("case {case_no} point {n}+{m}: {e}")),
                                                Ok(rec2) => {
                                                    if let Some(vd) = judge(&sc, &acks1, &rec2, "crash-in-recovery") {
                                                        rep.violation(&format!("e2:{focus}"), &vd.sig, json!({"case": case_no, "point": n, "recovery_point": m, "message": vd.msg, "config": sc.cfg.json()}));
                                                    } else {
                                                        rep.count("recoveries.matched_acknowledged_prefix", 1);
                                                    }
                                                }
                                            }
                                            r2.cleanup();
                                        }
                                    }
                                }
                                let _ = std::fs::remove_dir_all(&image);
                                let _ = std::fs::remove_dir_all(s2.root());
                            }
                        }
                    }
                }
                run.cleanup();
            }
        }
        // single injected failures
        if focus == "C02" && only_point.is_none() {
            let fpoints = crash::pick_points(total, fault_points, seed ^ 0xFA17 ^ case_no);
            for (fi, &n) in fpoints.iter().enumerate() {
                let errno = if fi % 2 == 0 { libc::EIO } else { libc::ENOSPC };
                let run = match sweep.fail_at(n, errno) {
                    Ok(r) => r,
                    Err(e) => {
                        rep.inconclusive.push(format!("case {case_no} fault {n}: {e}"));
                        continue;
                    }
                };
                rep.evaluations += 1;
                let what = if errno == libc::EIO { "fault-eio" } else { "fault-enospc" };
                if run.exit_code == 99 {
                    rep.count("fault.child_hung_until_watchdog", 1);
                    rep.inconclusive.push(format!("case {case_no} fault {n}: child hung after the injected failure"));
                    run.cleanup();
                    continue;
                }
                if run.exit_code != 0 {
                    // the process died of the failure: that is "surfaced", the image is judged like a crash
                    rep.count("fault.child_died", 1);
                }
                let surfaced = !run.acks.errors.is_empty() || run.acks.notes.iter().any(|x| x.contains("error"));
                rep.count(if surfaced { "fault.surfaced_as_error" } else { "fault.absorbed" }, 1);
                rep.count(&format!("fault.during.{}", step_of(n)), 1);
                let mut ih = SHash::default();
                ih.u64(hh.get()).u64(n).u64(errno as u64).u64(7);
                rep.nontrivial.insert(ih.get());
                match recover(&run.root, &base, &out) {
                    Err(e) => rep.inconclusive.push(format!("case {case_no} fault {n}: {e}")),
                    Ok(rec) => {
                        if let Some(vd) = judge(&sc, &run.acks, &rec, what) {
                            rep.violation("e2:C02", &vd.sig, json!({"case": case_no, "fault_at_call": n, "errno": errno, "message": vd.msg, "config": sc.cfg.json(),
                                "child_exit": run.exit_code, "child_errors": run.acks.errors, "child_stderr": run.stderr_tail,
                                "replay": format!("vh e2 focus=C02 seed={seed} shard={shard} cases={} rounds={rounds} case={case_no}", case_no + 1)}));
                        } else {
                            rep.count("recoveries.matched_acknowledged_prefix", 1);
                        }
                    }
                }
                run.cleanup();
            }
        }
        let _ = std::fs::remove_file(&out);
    }
    rep.notes.insert("ledger_findings_at_crash_points_not_reported_by_this_focus".into(), json!(ledger_other));
    rep.finish(args);
}

#[allow(dead_code)]
fn _unused(_: PathBuf) {}
