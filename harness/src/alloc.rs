//! Counting global allocator: makes "attempted unbounded allocation" a detected event instead of
//! an abort that escapes catch_unwind.  A single request above CAP_SINGLE (1 GiB; the code's own
//! largest documented object bound, TABLE_FULL_SIZE, is 0.94 GiB) or a live total above CAP_LIVE
//! prints a marker line and exits the process with the reserved code 86.

use std::alloc::{GlobalAlloc, Layout, System};
use std::sync::atomic::{AtomicU64, AtomicUsize, Ordering};

pub const CAP_SINGLE: usize = 1 << 30;
pub const CAP_LIVE: usize = 3 << 30;
pub const EXIT_ALLOC_CAP: i32 = 86;

static PEAK_REQUEST: AtomicUsize = AtomicUsize::new(0);
static LIVE: AtomicUsize = AtomicUsize::new(0);
static CASE: AtomicU64 = AtomicU64::new(u64::MAX);

pub struct CountingAlloc;

fn over_cap(size: usize, what: &str) -> ! {
    let msg = format!(
        "VH-ALLOC-CAP {what} size={size} case={}\n",
        CASE.load(Ordering::Relaxed)
    );
    unsafe {
        libc::write(2, msg.as_ptr() as *const libc::c_void, msg.len());
        libc::_exit(EXIT_ALLOC_CAP);
    }
}

unsafe impl GlobalAlloc for CountingAlloc {
    unsafe fn alloc(&self, layout: Layout) -> *mut u8 {
        let size = layout.size();
        if size > CAP_SINGLE {
            over_cap(size, "single-request");
        }
        PEAK_REQUEST.fetch_max(size, Ordering::Relaxed);
        let live = LIVE.fetch_add(size, Ordering::Relaxed) + size;
        if live > CAP_LIVE {
            over_cap(live, "live-total");
        }
        unsafe { System.alloc(layout) }
    }

    unsafe fn dealloc(&self, ptr: *mut u8, layout: Layout) {
        LIVE.fetch_sub(layout.size(), Ordering::Relaxed);
        unsafe { System.dealloc(ptr, layout) }
    }

    unsafe fn alloc_zeroed(&self, layout: Layout) -> *mut u8 {
        let size = layout.size();
        if size > CAP_SINGLE {
            over_cap(size, "single-request");
        }
        PEAK_REQUEST.fetch_max(size, Ordering::Relaxed);
        let live = LIVE.fetch_add(size, Ordering::Relaxed) + size;
        if live > CAP_LIVE {
            over_cap(live, "live-total");
        }
        unsafe { System.alloc_zeroed(layout) }
    }

    unsafe fn realloc(&self, ptr: *mut u8, layout: Layout, new_size: usize) -> *mut u8 {
        if new_size > CAP_SINGLE {
            over_cap(new_size, "single-request");
        }
        PEAK_REQUEST.fetch_max(new_size, Ordering::Relaxed);
        if new_size > layout.size() {
            LIVE.fetch_add(new_size - layout.size(), Ordering::Relaxed);
        } else {
            LIVE.fetch_sub(layout.size() - new_size, Ordering::Relaxed);
        }
        unsafe { System.realloc(ptr, layout, new_size) }
    }
}

pub fn reset_peak() {
    PEAK_REQUEST.store(0, Ordering::Relaxed);
}

pub fn peak_request() -> usize {
    PEAK_REQUEST.load(Ordering::Relaxed)
}

pub fn set_case(n: u64) {
    CASE.store(n, Ordering::Relaxed);
}
