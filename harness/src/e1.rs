//! Engine E1 — the store stepper (DESIGN.md §2.1).
//!
//! A single-threaded driver executes a generated history against the real store with the flush
//! and compaction loops in single-step mode, and consults the oracles of C01 C03 C04 C05 C07 C08
//! (and clause b of C20) after every step.  `focus=<ID>` selects which property's violations this
//! run reports (and tunes the workload towards it); violations of other properties end the
//! history as well but are only counted.

use std::collections::{BTreeMap, BTreeSet, HashMap, HashSet};
use std::ops::Bound;
use std::path::{Path, PathBuf};
use std::sync::Arc;
use std::sync::atomic::Ordering;

use lsmtk::{KeyValueStore, LsmTree, LsmVerifier, LsmtkOptions, WriteBatch};
use serde_json::json;
use setsum::Setsum;
use sst::{Builder, Cursor, SstBuilder, SstMetadata, SstOptions};

use crate::c11::{in_bounds, random_bound, show_bound};
use crate::r#gen::{Entry, Move, RefCursor, apply_real, current_real, has_reversal_or_seek, program, show_opt};
use crate::util::*;

////////////////////////////////////////////// Config //////////////////////////////////////////////

#[derive(Clone, Debug)]
pub struct Config {
    pub memtable: usize,
    pub target_file: usize,
    pub min_file: usize,
    pub pairs_restart: u64,
    pub l0_mandatory: usize,
    pub l0_stall: usize,
    pub max_files: usize,
    pub max_bytes: usize,
    pub max_open: usize,
    pub cache: usize,
    pub mani_ratio: u64,
    pub gc: String,
}

impl Config {
    pub fn random(rng: &mut Rng, focus: &str) -> Self {
        let mut c = Config {
            memtable: *rng.pick(&[1usize, 256, 4096]),
            target_file: *rng.pick(&[4096usize, 4096, 16384]),
            min_file: 4096,
            pairs_restart: *rng.pick(&[1u64, 16]),
            l0_mandatory: *rng.pick(&[1usize, 2, 4]),
            l0_stall: *rng.pick(&[2usize, 4, 12]),
            max_files: 64,
            max_bytes: *rng.pick(&[8192usize, 1 << 29, 1 << 29]),
            max_open: *rng.pick(&[256usize, 1 << 19]),
            cache: *rng.pick(&[0usize, 1 << 26]),
            mani_ratio: *rng.pick(&[1u64, 2, 8]),
            gc: rng
                .pick(&[
                    "versions = 1",
                    "versions = 1",
                    "versions = 2",
                    "versions = 3",
                    "any(versions = 1, ttl_micros = 5)",
                    "all(versions = 2, ttl_micros = 100)",
                ])
                .to_string(),
        };
        if c.l0_stall <= c.l0_mandatory {
            c.l0_stall = c.l0_mandatory + 1;
        }
        if c.cache > 0 && focus != "C20" {
            // a cached SST keeps its file open; 256 open files with a 64 MiB cache of tiny files is a
            // resource limit the harness would impose, not a tree shape (only C20 quantifies over it)
            c.max_open = 1 << 19;
        }
        if focus == "C20" {
            c.max_files = *rng.pick(&[6usize, 8, 16, 64]);
            c.l0_stall = *rng.pick(&[2usize, 3, 4]);
            c.l0_mandatory = *rng.pick(&[1usize, 2]);
            if c.max_files <= c.l0_stall + 1 {
                c.max_files = c.l0_stall + 2;
            }
            c.memtable = 1;
            c.target_file = 4096;
        }
        if focus == "C07" {
            c.cache = 0;
            c.max_open = 256;
        }
        if focus == "C05" {
            c.target_file = 4096;
        }
        c
    }

    pub fn args(&self, root: &str) -> Vec<String> {
        let v = vec![
            ("--mani-log-rollover-ratio", self.mani_ratio.to_string()),
            ("--sst-block-key-value-pairs-restart-interval", self.pairs_restart.to_string()),
            ("--sst-target-file-size", self.target_file.to_string()),
            ("--sst-minimum-file-size", self.min_file.to_string()),
            ("--path", root.to_string()),
            ("--max-open-files", self.max_open.to_string()),
            ("--max-compaction-bytes", self.max_bytes.to_string()),
            ("--max-compaction-files", self.max_files.to_string()),
            ("--l0-mandatory-compaction-threshold-files", self.l0_mandatory.to_string()),
            ("--l0-write-stall-threshold-files", self.l0_stall.to_string()),
            ("--memtable-size-bytes", self.memtable.to_string()),
            ("--gc-policy", self.gc.clone()),
            ("--sst-cache-bytes", self.cache.to_string()),
        ];
        v.into_iter().flat_map(|(a, b)| [a.to_string(), b]).collect()
    }

    pub fn options(&self, root: &str) -> LsmtkOptions {
        let args = self.args(root);
        let argv: Vec<&str> = args.iter().map(|s| s.as_str()).collect();
        let (o, _) = <LsmtkOptions as arrrg::CommandLine>::from_arguments_relaxed("e1", &argv);
        o
    }

    pub fn json(&self) -> serde_json::Value {
        json!({"memtable": self.memtable, "target_file": self.target_file, "pairs_restart": self.pairs_restart,
            "l0_mandatory": self.l0_mandatory, "l0_stall": self.l0_stall, "max_files": self.max_files,
            "max_bytes": self.max_bytes, "max_open": self.max_open, "cache": self.cache,
            "mani_ratio": self.mani_ratio, "gc": self.gc})
    }
}

////////////////////////////////////////// policy interpreter //////////////////////////////////////

/// Independent reading of the GC policy language (from the doc comments of
/// GarbageCollectionPolicy), used to compute what a collection MUST retain.
#[derive(Clone, Debug)]
pub enum Policy {
    Versions(u64),
    Ttl(u64),
    Any(Vec<Policy>),
    All(Vec<Policy>),
}

impl Policy {
    pub fn parse(s: &str) -> Option<Policy> {
        let s = s.trim();
        if let Some(r) = s.strip_prefix("versions") {
            return r.trim().strip_prefix('=')?.trim().parse().ok().map(Policy::Versions);
        }
        if let Some(r) = s.strip_prefix("ttl_micros") {
            return r.trim().strip_prefix('=')?.trim().parse().ok().map(Policy::Ttl);
        }
        let (ctor, rest): (fn(Vec<Policy>) -> Policy, &str) = if let Some(r) = s.strip_prefix("any") {
            (Policy::Any, r)
        } else if let Some(r) = s.strip_prefix("all") {
            (Policy::All, r)
        } else {
            return None;
        };
        let inner = rest.trim().strip_prefix('(')?.strip_suffix(')')?;
        // split at top-level commas
        let mut parts = Vec::new();
        let mut depth = 0;
        let mut cur = String::new();
        for ch in inner.chars() {
            match ch {
                '(' => {
                    depth += 1;
                    cur.push(ch);
                }
                ')' => {
                    depth -= 1;
                    cur.push(ch);
                }
                ',' if depth == 0 => {
                    parts.push(std::mem::take(&mut cur));
                }
                _ => cur.push(ch),
            }
        }
        if !cur.trim().is_empty() {
            parts.push(cur);
        }
        let subs: Option<Vec<Policy>> = parts.iter().map(|p| Policy::parse(p)).collect();
        Some(ctor(subs?))
    }

    /// Per unit (newest first) of one key: does the policy retain it?  `units` = (weight, value ts).
    fn decide(&self, units: &[(u64, u64)], now: u64) -> Vec<bool> {
        match self {
            Policy::Versions(n) => {
                let mut w = 0u64;
                units
                    .iter()
                    .map(|(weight, _)| {
                        w += weight;
                        w <= *n
                    })
                    .collect()
            }
            Policy::Ttl(micros) => {
                let threshold = now.saturating_sub(*micros);
                units.iter().map(|(_, ts)| *ts >= threshold).collect()
            }
            Policy::Any(ps) => {
                let all: Vec<Vec<bool>> = ps.iter().map(|p| p.decide(units, now)).collect();
                (0..units.len()).map(|i| all.iter().any(|d| d[i])).collect()
            }
            Policy::All(ps) => {
                let all: Vec<Vec<bool>> = ps.iter().map(|p| p.decide(units, now)).collect();
                (0..units.len()).map(|i| all.iter().all(|d| d[i])).collect()
            }
        }
    }

    /// The entries a collection over `entries` (sorted key asc, ts desc) must retain.
    pub fn must_retain(&self, entries: &[Entry], now: u64) -> HashSet<(Vec<u8>, u64)> {
        let mut out = HashSet::new();
        let mut i = 0;
        while i < entries.len() {
            let mut j = i;
            while j < entries.len() && entries[j].key == entries[i].key {
                j += 1;
            }
            // units of this key
            let mut units: Vec<(u64, u64)> = Vec::new();
            let mut members: Vec<Vec<u64>> = Vec::new(); // timestamps that must survive if retained
            let mut run: Vec<u64> = Vec::new();
            for e in &entries[i..j] {
                if e.value.is_none() {
                    run.push(e.ts);
                } else {
                    if run.is_empty() {
                        units.push((1, e.ts));
                        members.push(vec![e.ts]);
                    } else {
                        units.push((2, e.ts));
                        members.push(vec![*run.last().unwrap(), e.ts]);
                    }
                    run.clear();
                }
            }
            // trailing tombstones with no value beneath are never required
            let d = self.decide(&units, now);
            for (u, keep) in d.iter().enumerate() {
                if *keep {
                    for ts in &members[u] {
                        out.insert((entries[i].key.clone(), *ts));
                    }
                }
            }
            i = j;
        }
        out
    }
}

////////////////////////////////////////// on-disk observers ///////////////////////////////////////

#[derive(Clone, Debug, Default, PartialEq, Eq)]
pub struct EditRec {
    pub added: Vec<String>,
    pub removed: Vec<String>,
    pub i: Option<String>,
    pub o: Option<String>,
    pub d: Option<String>,
    pub l: Option<String>,
}

pub fn read_fragment(path: &Path) -> Result<Vec<EditRec>, String> {
    let it = mani::ManifestIterator::open(path).map_err(|e| e.to_string())?;
    let mut out = Vec::new();
    for e in it {
        let e = e.map_err(|e| e.to_string())?;
        out.push(EditRec {
            added: e.added().cloned().collect(),
            removed: e.rmed().cloned().collect(),
            i: e.get_info('I').cloned(),
            o: e.get_info('O').cloned(),
            d: e.get_info('D').cloned(),
            l: e.get_info('L').cloned(),
        });
    }
    Ok(out)
}

pub fn fragment_paths(root: &Path) -> Vec<(u64, PathBuf)> {
    let mani_root = lsmtk::MANI_ROOT(root);
    let mut v: Vec<(u64, PathBuf)> = Vec::new();
    if let Ok(rd) = std::fs::read_dir(&mani_root) {
        for e in rd.flatten() {
            if let Some(id) = mani::extract_backup(e.path()) {
                v.push((id, e.path()));
            }
        }
    }
    v.sort();
    let next = v.last().map(|x| x.0 + 1).unwrap_or(0);
    let cur = mani::MANIFEST(&mani_root);
    if cur.is_file() {
        v.push((next, cur));
    }
    v
}

fn hexsum(s: &Option<String>) -> Option<Setsum> {
    s.as_ref().and_then(|h| Setsum::from_hexdigest(h))
}

/// Everything an SST holds, read with an independent walk; cached by file name (content
/// addressed).  Also returns the metadata the file reports.
pub struct FileDump {
    pub entries: Vec<Entry>,
    pub md: SstMetadata,
    pub content_setsum: [u8; 32],
}

pub fn dump_sst(path: &Path) -> Result<FileDump, String> {
    let sst = sst::Sst::<sst::file_manager::FileHandle>::new(SstOptions::default(), path).map_err(|e| e.to_string())?;
    let mut c = sst.cursor();
    c.seek_to_first().map_err(|e| e.to_string())?;
    let mut entries = Vec::new();
    loop {
        c.next().map_err(|e| e.to_string())?;
        match current_real(&c) {
            Some(e) => entries.push(e),
            None => break,
        }
    }
    let md = sst.metadata().map_err(|e| e.to_string())?;
    let content_setsum = crate::c10::content_setsum(&entries);
    Ok(FileDump { entries, md, content_setsum })
}

#[derive(Clone, Debug, Default, PartialEq, Eq)]
pub struct Listing {
    pub sst: BTreeSet<String>,
    pub trash: BTreeSet<String>,
    pub logs: BTreeSet<String>,
    pub mani: BTreeSet<String>,
    pub verify: BTreeSet<String>,
    pub other: BTreeSet<String>,
}

fn names(dir: &Path) -> BTreeSet<String> {
    std::fs::read_dir(dir)
        .map(|rd| rd.flatten().map(|e| e.file_name().to_string_lossy().to_string()).collect())
        .unwrap_or_default()
}

pub fn listing(root: &Path) -> Listing {
    let mut l = Listing {
        sst: names(&lsmtk::SST_ROOT(root)),
        trash: names(&lsmtk::TRASH_ROOT(root)),
        mani: names(&lsmtk::MANI_ROOT(root)),
        verify: names(&lsmtk::VERIFY_ROOT(root)),
        ..Default::default()
    };
    for n in names(root) {
        if n.starts_with("log.") {
            l.logs.insert(n);
        }
    }
    for d in ["tmp", "compaction", "ingest"] {
        for n in names(&root.join(d)) {
            l.other.insert(format!("{d}/{n}"));
        }
    }
    l
}

////////////////////////////////////////////// History /////////////////////////////////////////////

pub struct Viol {
    pub prop: &'static str,
    pub sig: String,
    pub msg: String,
}

fn v(prop: &'static str, sig: &str, msg: String) -> Viol {
    Viol { prop, sig: sig.to_string(), msg }
}

enum Backend {
    Kvs(&'static KeyValueStore),
    Tree(&'static LsmTree),
}

struct Held {
    cursor: Box<dyn Cursor>,
    reference: Vec<Entry>,
    pos: isize,
    live_at_open: BTreeSet<String>,
    events_since_open: u64,
    advanced_after_event: bool,
    opened_at: usize,
}

pub struct History {
    pub root: PathBuf,
    pub cfg: Config,
    pub focus: String,
    pub tmode: bool,
    backend: Option<Backend>,
    pub keys: Vec<Vec<u8>>,
    pub model: BTreeMap<Vec<u8>, Option<Vec<u8>>>,
    pub ever: HashSet<Vec<u8>>,
    pub next_val: u64,
    pub next_ts: u64,
    pub steps: Vec<String>,
    held: Vec<Held>,
    pub dumps: HashMap<String, Arc<FileDump>>,
    pub cov: BTreeMap<String, u64>,
    pub policy: Policy,
    pub gc_seen: bool,
    ingest_seq: u64,
    pub nontrivial: bool,
    /// every fragment ever read, by id (the newest file changes id when it is rolled)
    seen_frags: BTreeMap<u64, Vec<EditRec>>,
    ledger_checked: HashSet<String>,
    /// the directory was produced by a crash: the verifier's acceptance is only promised for
    /// histories without faults, so its verdict is recorded, not demanded
    pub crash_image: bool,
    last_staging: Option<String>,
    /// observers read the tree shape from here when no store is attached (a store opened elsewhere)
    pub levels_override: Option<Vec<Vec<SstMetadata>>>,
    /// calls of the compaction step so far; the call that performed the last rewriting compaction
    pub compaction_calls: u64,
    last_rewriting_call: u64,
    last_rewriting_step: usize,
    /// calls whose rewriting compaction was followed by one staging under the same directory
    pub staging_pairs: Vec<u64>,
    /// stop (with a `stop` pseudo-violation) right before this compaction call
    pub stop_before_call: Option<u64>,
}

fn key_space(rng: &mut Rng) -> Vec<Vec<u8>> {
    let n = 4 + rng.usize(44);
    let mut pool: Vec<Vec<u8>> = vec![vec![], vec![0x00], vec![0xff], vec![0xff; 11], vec![0xff; 12], b"a".to_vec(), b"ab".to_vec(), b"abc".to_vec()];
    while pool.len() < n + 8 {
        let k = match rng.below(5) {
            0 => format!("k{:02}", rng.below(40)).into_bytes(),
            1 => {
                let mut k = b"pre/fix/".to_vec();
                k.push(b'a' + rng.below(4) as u8);
                k
            }
            2 => {
                let mut k = b"zz".to_vec();
                k.push(0x7e + rng.below(4) as u8);
                k
            }
            3 => {
                let l = 1 + rng.usize(3);
                rng.bytes(l)
            }
            _ => format!("user{:03}", rng.below(30)).into_bytes(),
        };
        pool.push(k);
    }
    rng.shuffle(&mut pool);
    pool.truncate(n);
    pool.sort();
    pool.dedup();
    pool
}

impl History {
    pub fn new(rng: &mut Rng, scratch: &Scratch, tag: &str, focus: &str, tmode: bool) -> Self {
        let root = scratch.path.join(tag);
        let _ = std::fs::remove_dir_all(&root);
        let cfg = Config::random(rng, focus);
        let policy = Policy::parse(&cfg.gc).expect("policy parses");
        Self {
            root,
            cfg,
            focus: focus.to_string(),
            tmode,
            backend: None,
            keys: key_space(rng),
            model: BTreeMap::new(),
            ever: HashSet::new(),
            next_val: 1,
            next_ts: 1,
            steps: Vec::new(),
            held: Vec::new(),
            dumps: HashMap::new(),
            cov: BTreeMap::new(),
            policy,
            gc_seen: false,
            ingest_seq: 0,
            nontrivial: false,
            seen_frags: BTreeMap::new(),
            ledger_checked: HashSet::new(),
            crash_image: false,
            last_staging: None,
            levels_override: None,
            compaction_calls: 0,
            last_rewriting_call: 0,
            last_rewriting_step: 0,
            staging_pairs: Vec::new(),
            stop_before_call: None,
        }
    }

    /// A history object over an existing directory (crash images): observers only.
    pub fn attach(root: &Path, cfg: Config, keys: Vec<Vec<u8>>) -> Self {
        let policy = Policy::parse(&cfg.gc).expect("policy parses");
        Self {
            root: root.to_path_buf(),
            cfg,
            focus: "C02".to_string(),
            tmode: false,
            backend: None,
            keys,
            model: BTreeMap::new(),
            ever: HashSet::new(),
            next_val: 1,
            next_ts: 1,
            steps: Vec::new(),
            held: Vec::new(),
            dumps: HashMap::new(),
            cov: BTreeMap::new(),
            policy,
            gc_seen: false,
            ingest_seq: 0,
            nontrivial: false,
            seen_frags: BTreeMap::new(),
            ledger_checked: HashSet::new(),
            crash_image: false,
            last_staging: None,
            levels_override: None,
            compaction_calls: 0,
            last_rewriting_call: 0,
            last_rewriting_step: 0,
            staging_pairs: Vec::new(),
            stop_before_call: None,
        }
    }

    pub(crate) fn kvs(&self) -> Option<&'static KeyValueStore> {
        match self.backend.as_ref()? {
            Backend::Kvs(k) => Some(k),
            _ => None,
        }
    }

    fn count(&mut self, k: &str, n: u64) {
        *self.cov.entry(k.to_string()).or_insert(0) += n;
    }

    fn levels_now(&self) -> Vec<Vec<SstMetadata>> {
        match &self.levels_override {
            Some(l) => l.clone(),
            None => self.tree().verif_levels(),
        }
    }

    fn root_str(&self) -> String {
        self.root.to_string_lossy().to_string()
    }

    fn tree(&self) -> &'static LsmTree {
        match self.backend.as_ref().unwrap() {
            Backend::Kvs(k) => {
                // SAFETY: the store is leaked for the duration of the history
                let t: &LsmTree = k.verif_tree();
                unsafe { std::mem::transmute::<&LsmTree, &'static LsmTree>(t) }
            }
            Backend::Tree(t) => t,
        }
    }

    pub fn open(&mut self) -> Result<(), Viol> {
        let opts = self.cfg.options(&self.root_str());
        let r = guarded(|| -> Result<Backend, String> {
            if self.tmode {
                LsmTree::open(opts).map(|t| Backend::Tree(Box::leak(Box::new(t)))).map_err(|e| e.to_string())
            } else {
                KeyValueStore::open(opts).map(|k| Backend::Kvs(Box::leak(Box::new(k)))).map_err(|e| e.to_string())
            }
        });
        match r {
            Ok(Ok(b)) => {
                self.backend = Some(b);
                Ok(())
            }
            Ok(Err(e)) => {
                // the store's own tree-vs-manifest comparison firing is a ledger observation too
                let prop = if e.contains("setsum") { "C01|C04" } else { "C01" };
                Err(v(prop, &format!("error:open:{}", err_code(&e)), format!("open failed in a fault-free history: {e}")))
            }
            Err(p) => Err(v("C01", &format!("panic:{}", panic_site(&p)), format!("open panicked: {p}"))),
        }
    }

    pub fn close(&mut self) {
        self.held.clear();
        if let Some(b) = self.backend.take() {
            unsafe {
                match b {
                    Backend::Kvs(k) => drop(Box::from_raw(k as *const KeyValueStore as *mut KeyValueStore)),
                    Backend::Tree(t) => drop(Box::from_raw(t as *const LsmTree as *mut LsmTree)),
                }
            }
        }
    }

    fn fresh_value(&mut self, rng: &mut Rng) -> Vec<u8> {
        let id = self.next_val;
        self.next_val += 1;
        let len = match rng.below(if self.focus == "C05" || self.focus == "C20" { 6 } else { 12 }) {
            0 | 1 => 1000 + rng.usize(2200),
            2 => 0,
            _ => 8 + rng.usize(40),
        };
        let mut val = format!("v{id:08}").into_bytes();
        if len == 0 {
            // an empty value is a legal value; keep ids unique by making only some empty
            if rng.chance(1, 3) {
                return Vec::new();
            }
        }
        val.resize(val.len().max(len), b'.');
        val
    }

    fn pick_key(&self, rng: &mut Rng) -> Vec<u8> {
        // a hot key gets many versions
        if rng.chance(1, 4) {
            self.keys[0].clone()
        } else {
            rng.pick(&self.keys).clone()
        }
    }

    ///////////////////////////////////////// client writes ////////////////////////////////////////

    fn step_write(&mut self, rng: &mut Rng) -> Result<(), Viol> {
        let Backend::Kvs(kvs) = self.backend.as_ref().unwrap() else { unreachable!() };
        let kvs: &'static KeyValueStore = kvs;
        let kind = rng.below(10);
        let mut ops: Vec<(Vec<u8>, Option<Vec<u8>>)> = Vec::new();
        match kind {
            0..=4 => ops.push((self.pick_key(rng), Some(self.fresh_value(rng)))),
            5 | 6 => ops.push((self.pick_key(rng), None)),
            _ => {
                let n = 1 + rng.usize(6);
                for _ in 0..n {
                    let k = self.pick_key(rng);
                    if rng.chance(1, 4) {
                        ops.push((k, None));
                    } else {
                        let val = self.fresh_value(rng);
                        ops.push((k, Some(val)));
                    }
                }
            }
        }
        let dup = ops.iter().map(|o| &o.0).collect::<HashSet<_>>().len() < ops.len();
        let desc = if ops.len() == 1 {
            match &ops[0].1 {
                Some(val) => format!("put({}, {})", show(&ops[0].0), show(val)),
                None => format!("del({})", show(&ops[0].0)),
            }
        } else {
            format!("batch[{}]{}", ops.iter().map(|(k, val)| format!("{}{}", if val.is_some() { "+" } else { "-" }, show(k))).collect::<Vec<_>>().join(","), if dup { " (names a key twice)" } else { "" })
        };
        self.steps.push(desc.clone());
        let r = guarded(|| {
            if ops.len() == 1 && kind < 7 {
                match &ops[0].1 {
                    Some(val) => kvs.put(&ops[0].0, val),
                    None => kvs.del(&ops[0].0),
                }
            } else {
                let mut wb = WriteBatch::with_capacity(ops.len());
                for (k, val) in &ops {
                    match val {
                        Some(val) => wb.put(k, val),
                        None => wb.del(k),
                    }
                }
                kvs.write(wb)
            }
        });
        match r {
            Ok(Ok(())) => {
                for (k, val) in ops {
                    self.ever.insert(k.clone());
                    self.model.insert(k, val);
                }
                self.count(if dup { "ops.batch_with_duplicate_key" } else if kind >= 7 { "ops.batch" } else if kind >= 5 { "ops.del" } else { "ops.put" }, 1);
                for h in self.held.iter_mut() {
                    h.events_since_open += 1;
                }
                Ok(())
            }
            Ok(Err(e)) => Err(v("C01", &format!("error:write:{}", err_code(&e.to_string())), format!("{desc} failed: {e}"))),
            Err(p) => Err(v("C01", &format!("panic:{}{}", panic_site(&p), if dup { ":duplicate-key-batch" } else { "" }), format!("{desc} panicked: {p}"))),
        }
    }

    /// T-mode write: ingest a harness-built SST whose timestamps are above everything so far.
    fn step_ingest(&mut self, rng: &mut Rng, scratch: &Scratch) -> Result<(), Viol> {
        let tree = self.tree();
        self.stall_guard()?;
        let n = 1 + rng.usize(8);
        let mut ops: Vec<Entry> = Vec::new();
        let style = rng.below(4);
        for i in 0..n {
            let key = match style {
                // boundary-sharing files: consecutive keys from the sorted key space
                0 => self.keys[(self.ingest_seq as usize + i) % self.keys.len()].clone(),
                // many versions of one key
                1 => self.keys[0].clone(),
                _ => self.pick_key(rng),
            };
            let ts = self.next_ts;
            self.next_ts += 1;
            let value = if rng.chance(1, 5) { None } else { Some(self.fresh_value(rng)) };
            ops.push(Entry { key, ts, value });
        }
        let mut sorted = ops.clone();
        sorted.sort_by(crate::r#gen::entry_cmp);
        self.ingest_seq += 1;
        let src = scratch.path.join(format!("ingest-src-{}-{}.sst", std::process::id(), self.ingest_seq));
        let _ = std::fs::remove_file(&src);
        let desc = format!("ingest[{}]", sorted.iter().map(|e| format!("{}@{}{}", show(&e.key), e.ts, if e.value.is_none() { "x" } else { "" })).collect::<Vec<_>>().join(","));
        self.steps.push(desc.clone());
        let opts = SstOptions::default().target_block_size(4096);
        let r = guarded(|| -> Result<(), String> {
            let mut b = SstBuilder::new(opts, &src).map_err(|e| e.to_string())?;
            for e in &sorted {
                match &e.value {
                    Some(val) => b.put(&e.key, e.ts, val),
                    None => b.del(&e.key, e.ts),
                }
                .map_err(|e| e.to_string())?;
            }
            b.seal().map_err(|e| e.to_string())?;
            tree.ingest(&src).map_err(|e| e.to_string())
        });
        let _ = std::fs::remove_file(&src);
        match r {
            Ok(Ok(())) => {
                for e in ops {
                    self.ever.insert(e.key.clone());
                    self.model.insert(e.key, e.value);
                }
                self.count("ops.ingest", 1);
                for h in self.held.iter_mut() {
                    h.events_since_open += 1;
                }
                Ok(())
            }
            Ok(Err(e)) => Err(v("C01", &format!("error:ingest:{}", err_code(&e)), format!("{desc} failed: {e}"))),
            Err(p) => Err(v("C01", &format!("panic:{}", panic_site(&p)), format!("{desc} panicked: {p}"))),
        }
    }

    ////////////////////////////////////////// maintenance /////////////////////////////////////////

    /// Never let the single thread block in an ingest: while the tree says ingest would stall,
    /// run compaction steps.  A stall that no compaction step relieves is the C20 clause-b witness.
    fn stall_guard(&mut self) -> Result<(), Viol> {
        let tree = self.tree();
        let mut guard = 0;
        while tree.verif_should_stall() {
            self.count("c20.states_with_ingest_stalled", 1);
            let levels = tree.verif_levels();
            let nfiles: usize = levels.iter().map(|l| l.len()).sum();
            let did = self.step_compaction()?;
            if did {
                // the relieving compactions are steps like any other: same oracles
                self.check_structure(false)?;
            }
            guard += 1;
            if !did {
                // nothing selectable while stalled
                let l0 = &levels[0];
                let needed = l0_compaction_inputs(&levels);
                let l1_overlap = needed - l0.len();
                let explained = needed > self.cfg.max_files;
                let shape: Vec<usize> = levels.iter().map(|l| l.len()).collect();
                return Err(v(
                    "C20",
                    if explained { "stall:l0-compaction-exceeds-max-compaction-files" } else { "stall:no-compaction-selectable" },
                    format!("ingest would stall (L0 has {} files, stall threshold {}), and a compaction step selects nothing: L0 + overlapping L1 = {} inputs, max_compaction_files = {}; shape {shape:?}", l0.len(), self.cfg.l0_stall, l0.len() + l1_overlap, self.cfg.max_files),
                ));
            }
            if guard > 4 * nfiles + 64 {
                return Err(v("C20", "stall:not-relieved-within-bound", format!("{guard} compaction steps did not bring L0 below the stall threshold")));
            }
        }
        if guard > 0 {
            self.count("c20.stalls_relieved", 1);
        }
        Ok(())
    }

    fn step_flush(&mut self) -> Result<bool, Viol> {
        let Backend::Kvs(kvs) = self.backend.as_ref().unwrap() else { return Ok(false) };
        let kvs: &'static KeyValueStore = kvs;
        if kvs.verif_state().0 == 0 {
            return Ok(false);
        }
        self.stall_guard()?;
        self.steps.push("flush".into());
        let before = lsmtk::verif::FLUSHES_DONE.load(Ordering::SeqCst);
        let r = guarded(|| {
            if !kvs.verif_request_flush() {
                return Ok(());
            }
            kvs.memtable_thread()
        });
        match r {
            Ok(Ok(())) => {}
            Ok(Err(e)) => return Err(v("C01", &format!("error:flush:{}", err_code(&e.to_string())), format!("flush failed: {e}"))),
            Err(p) => return Err(v("C01", &format!("panic:{}", panic_site(&p)), format!("flush panicked: {p}"))),
        }
        let done = lsmtk::verif::FLUSHES_DONE.load(Ordering::SeqCst) > before;
        if done {
            self.count("steps.flush", 1);
            for h in self.held.iter_mut() {
                h.events_since_open += 1;
            }
        }
        Ok(done)
    }

    fn step_compaction_inner(&mut self) -> Result<(), Viol> {
        self.compaction_calls += 1;
        if self.stop_before_call == Some(self.compaction_calls) {
            return Err(v("stop", "stop", String::new()));
        }
        let r = match self.backend.as_ref().unwrap() {
            Backend::Kvs(k) => {
                let k: &'static KeyValueStore = k;
                guarded(|| k.compaction_thread())
            }
            Backend::Tree(t) => {
                let t: &'static LsmTree = t;
                guarded(|| t.compaction_thread())
            }
        };
        match r {
            Ok(Ok(())) => Ok(()),
            Ok(Err(e)) => Err(v("C01", &format!("error:compaction:{}", err_code(&e.to_string())), format!("compaction step failed: {e}"))),
            Err(p) => Err(v("C01", &format!("panic:{}", panic_site(&p)), format!("compaction step panicked: {p}"))),
        }
    }

    /// One compaction step with the C05 conservation oracle around it.
    fn step_compaction(&mut self) -> Result<bool, Viol> {
        let root = self.root.clone();
        let before_listed = self.listed_on_disk().map_err(|e| v("C04", "manifest-unreadable", e))?;
        let before_frag = self.all_edits().map_err(|e| v("C04", "manifest-unreadable", e))?;
        let before_levels = self.tree().verif_levels();
        let before_done = lsmtk::verif::COMPACTIONS_DONE.load(Ordering::SeqCst);
        self.step_compaction_inner()?;
        let done = lsmtk::verif::COMPACTIONS_DONE.load(Ordering::SeqCst) > before_done;
        if !done {
            return Ok(false);
        }
        let after_listed = self.listed_on_disk().map_err(|e| v("C04", "manifest-unreadable", e))?;
        let after_frag = self.all_edits().map_err(|e| v("C04", "manifest-unreadable", e))?;
        let after_levels = self.tree().verif_levels();
        for h in self.held.iter_mut() {
            h.events_since_open += 1;
        }
        let new_edits: Vec<EditRec> = if after_frag.len() >= before_frag.len() { after_frag[before_frag.len()..].to_vec() } else { Vec::new() };
        let shape_before: Vec<usize> = before_levels.iter().map(|l| l.len()).collect();
        let shape_after: Vec<usize> = after_levels.iter().map(|l| l.len()).collect();
        let rewriting: Vec<&EditRec> = new_edits.iter().filter(|e| !e.removed.is_empty()).collect();
        if rewriting.is_empty() {
            // a trivial move: no file may change
            self.steps.push(format!("compaction(move) {shape_before:?}->{shape_after:?}"));
            self.count("steps.trivial_move", 1);
            if before_listed != after_listed {
                return Err(v("C05", "move-changed-files", format!("a moving compaction changed the listed set: {:?} -> {:?}", before_listed, after_listed)));
            }
            return Ok(true);
        }
        // the staging directory of a rewriting compaction is named by the sum of its inputs: does the
        // next rewriting compaction stage under the same name (its inputs are the last one's outputs)?
        {
            let acc: Setsum = rewriting.iter().flat_map(|e| e.removed.iter()).filter_map(|r| Setsum::from_hexdigest(r)).fold(Setsum::default(), |a, b| a + b);
            if self.last_staging == Some(acc.hexdigest()) {
                self.count("c20.rewriting_compaction_stages_under_its_predecessors_directory", 1);
                // a pair two threads can run back to back: nothing but compactions in between
                if self.steps[self.last_rewriting_step..].iter().all(|s| s.starts_with("compaction(")) {
                    self.staging_pairs.push(self.last_rewriting_call);
                }
            }
            self.last_staging = Some(acc.hexdigest());
            self.last_rewriting_call = self.compaction_calls;
            self.last_rewriting_step = self.steps.len() + 1;
        }
        let gc = rewriting.iter().any(|e| hexsum(&e.d).map(|d| d != Setsum::default()).unwrap_or(false));
        self.steps.push(format!("compaction({}) {shape_before:?}->{shape_after:?} -{} +{}", if gc { "gc" } else { "merge" }, rewriting.iter().map(|e| e.removed.len()).sum::<usize>(), rewriting.iter().map(|e| e.added.len()).sum::<usize>()));
        // multi-version dumps
        let m0 = self.dump_set(&root, &before_listed, true).map_err(|e| v("C05", "dump-failed", e))?;
        let m1 = self.dump_set(&root, &after_listed, false).map_err(|e| v("C05", "dump-failed", e))?;
        let to_multiset = |es: &Vec<Entry>| {
            let mut m: HashMap<(Vec<u8>, u64, Option<Vec<u8>>), i64> = HashMap::new();
            for e in es {
                *m.entry((e.key.clone(), e.ts, e.value.clone())).or_insert(0) += 1;
            }
            m
        };
        let ms0 = to_multiset(&m0);
        let ms1 = to_multiset(&m1);
        let inputs: usize = rewriting.iter().map(|e| e.removed.len()).sum();
        let outputs: usize = rewriting.iter().map(|e| e.added.len()).sum();
        if inputs >= 2 {
            self.count("c05.compactions_with_2plus_inputs", 1);
        }
        if outputs >= 2 {
            self.count("c05.compactions_with_2plus_outputs", 1);
            // a key whose versions straddle two outputs
            for e in &rewriting {
                let mds: Vec<&SstMetadata> = after_levels.iter().flatten().filter(|m| e.added.contains(&Setsum::from_digest(m.setsum).hexdigest())).collect();
                for a in &mds {
                    for b in &mds {
                        if a.setsum != b.setsum && a.last_key == b.first_key {
                            self.count("c05.key_versions_straddle_outputs", 1);
                        }
                    }
                }
            }
        }
        if !gc {
            self.count("steps.merge", 1);
            if ms0 != ms1 {
                let lost: Vec<String> = ms0.iter().filter(|(k, n)| ms1.get(*k).copied().unwrap_or(0) < **n).take(4).map(|(k, _)| format!("{}@{}", show(&k.0), k.1)).collect();
                let gained: Vec<String> = ms1.iter().filter(|(k, n)| ms0.get(*k).copied().unwrap_or(0) < **n).take(4).map(|(k, _)| format!("{}@{}", show(&k.0), k.1)).collect();
                return Err(v("C05", if !lost.is_empty() { "merge-lost-entry" } else { "merge-invented-entry" }, format!("a non-GC compaction changed the multiset of versions: lost {lost:?}, gained {gained:?}")));
            }
        } else {
            self.count("steps.gc", 1);
            self.gc_seen = true;
            // after is a sub-multiset of before
            for (k, n) in &ms1 {
                if ms0.get(k).copied().unwrap_or(0) < *n {
                    return Err(v("C05", "gc-invented-entry", format!("GC output holds {}@{} which no input held", show(&k.0), k.1)));
                }
            }
            // what the policy must retain, computed over the inputs of the collection
            let removed: BTreeSet<String> = rewriting.iter().flat_map(|e| e.removed.iter().cloned()).collect();
            let mut input_entries: Vec<Entry> = Vec::new();
            for s in &removed {
                if let Some(d) = self.dumps.get(s) {
                    input_entries.extend(d.entries.iter().cloned());
                }
            }
            input_entries.sort_by(crate::r#gen::entry_cmp);
            let must = self.policy.must_retain(&input_entries, 0);
            let mut dropped_sum = sst::Setsum::default();
            let mut ndropped = 0u64;
            for (k, n) in &ms0 {
                let left = ms1.get(k).copied().unwrap_or(0);
                if left < *n {
                    ndropped += 1;
                    match &k.2 {
                        Some(val) => dropped_sum.put(&k.0, k.1, val),
                        None => dropped_sum.del(&k.0, k.1),
                    }
                    if must.contains(&(k.0.clone(), k.1)) {
                        return Err(v("C05", "gc-dropped-retained-entry", format!("GC under policy '{}' dropped {}@{} which the policy requires to be retained", self.cfg.gc, show(&k.0), k.1)));
                    }
                }
            }
            if ndropped > 0 {
                self.count("c05.gc_with_nonempty_discard", 1);
                self.count("c05.gc_entries_dropped", ndropped);
            }
            let d: Setsum = rewriting.iter().filter_map(|e| hexsum(&e.d)).fold(Setsum::default(), |a, b| a + b);
            if dropped_sum.into_inner() != d {
                return Err(v("C05", "gc-discard-setsum-mismatch", format!("the entries that vanished sum to {} but the manifest records discard {}", dropped_sum.hexdigest(), d.hexdigest())));
            }
        }
        // whatever kind: the value each key currently has (newest version anywhere) must not change
        let current = |es: &Vec<Entry>| {
            let mut c: HashMap<Vec<u8>, (u64, Option<Vec<u8>>)> = HashMap::new();
            for e in es {
                let better = c.get(&e.key).map(|x| e.ts > x.0).unwrap_or(true);
                if better {
                    c.insert(e.key.clone(), (e.ts, e.value.clone()));
                }
            }
            c
        };
        let c0 = current(&m0);
        let c1 = current(&m1);
        for (k, (ts, val)) in &c0 {
            let after = c1.get(k).and_then(|x| x.1.clone());
            if val.clone() != after {
                return Err(v("C05", "compaction-changed-current-value", format!("key {}: newest version before was @{ts} = {:?}; after the compaction the tree's newest is {:?}", show(k), val.as_ref().map(|x| show(x)), c1.get(k).map(|x| (x.0, x.1.as_ref().map(|y| show(y)))))));
            }
        }
        Ok(true)
    }

    fn step_verifier(&mut self) -> Result<(), Viol> {
        self.steps.push("verifier-pass".into());
        let opts = self.cfg.options(&self.root_str());
        let before = listing(&self.root);
        let frags_before: Vec<(u64, PathBuf)> = fragment_paths(&self.root);
        let frag_edits: Vec<(u64, Vec<EditRec>)> = frags_before.iter().map(|(id, p)| (*id, read_fragment(p).unwrap_or_default())).collect();
        let r = guarded(|| -> Result<(), lsmtk::SError> {
            let mut ver = LsmVerifier::open(opts)?;
            ver.verify()
        });
        match r {
            Ok(Ok(())) => self.count("steps.verifier_pass", 1),
            Ok(Err(e)) => {
                if lsmtk::error_code(&e) == Some(lsmtk::CODE_BACKOFF) {
                    self.count("steps.verifier_backoff", 1);
                } else {
                    // verified explanation of the one known way this happens: the file the
                    // verifier cannot find was removed by an earlier fragment (whose trash the
                    // verifier has already emptied), created again with the same content, and
                    // removed again by the fragment now being verified
                    let msg = e.to_string();
                    let missing = msg.split("/trash/").nth(1).and_then(|x| x.split(".sst").next()).map(|x| x.to_string());
                    let mut explained = false;
                    if let (Some(x), true) = (&missing, msg.contains("NotFound")) {
                        let _ = self.check_ledger_quiet();
                        let removals: Vec<u64> = self.seen_frags.iter().filter(|(_, edits)| edits.iter().skip(1).any(|ed| ed.removed.contains(x))).map(|(id, _)| *id).collect();
                        let on_disk: Vec<u64> = frags_before.iter().map(|f| f.0).collect();
                        explained = removals.len() >= 2 && removals.iter().any(|id| !on_disk.contains(id)) && removals.iter().any(|id| on_disk.contains(id));
                    }
                    let sig = if explained { "verifier-lost-input-of-gc-removed-twice".to_string() } else { format!("verifier-rejects-fault-free-history:{}", err_code(&msg)) };
                    return Err(v("C04", &sig, format!("LsmVerifier::verify failed on a history the store produced without faults: {msg}")));
                }
            }
            Err(p) => return Err(v("C04", &format!("verifier-panic:{}", panic_site(&p)), format!("verifier panicked: {p}"))),
        }
        // C08: what did the pass unlink?
        let after = listing(&self.root);
        for gone in before.trash.difference(&after.trash) {
            self.count("c08.trash_entries_unlinked", 1);
            // must be named as a removal / log number by a fragment that is not one of the two newest
            let old = &frag_edits[..frag_edits.len().saturating_sub(2)];
            let named = old.iter().any(|(_, edits)| {
                edits.iter().skip(1).any(|e| {
                    e.removed.iter().any(|r| format!("{r}.sst") == *gone) || e.l.as_ref().map(|l| format!("log.{l}") == *gone).unwrap_or(false)
                })
            });
            if !named {
                return Err(v("C08", "verifier-unlinked-unrecorded-file", format!("the verifier unlinked trash/{gone}, which no fragment older than the two newest records as removed")));
            }
        }
        for gone in before.sst.difference(&after.sst) {
            return Err(v("C08", "verifier-removed-sst", format!("the verifier pass removed sst/{gone}")));
        }
        for gone in before.mani.difference(&after.mani) {
            self.count("c08.fragments_unlinked", 1);
            let id = mani::extract_backup(PathBuf::from(gone));
            let newest_two: Vec<u64> = frags_before.iter().rev().take(2).map(|x| x.0).collect();
            if id.map(|i| newest_two.contains(&i)).unwrap_or(true) {
                return Err(v("C08", "verifier-unlinked-recent-fragment", format!("the verifier unlinked mani/{gone}")));
            }
        }
        Ok(())
    }

    fn step_reopen(&mut self) -> Result<(), Viol> {
        self.steps.push("reopen".into());
        let before = listing(&self.root);
        let listed = self.listed_on_disk().unwrap_or_default();
        self.close();
        self.open()?;
        self.count("steps.reopen", 1);
        let after = listing(&self.root);
        // orphan clean-up must not touch a listed file (recovery may add files, never remove listed ones)
        for gone in before.sst.difference(&after.sst) {
            let name = gone.trim_end_matches(".sst").to_string();
            if listed.contains(&name) {
                return Err(v("C08", "reopen-removed-listed-sst", format!("reopen moved sst/{gone} away although the manifest lists it")));
            }
        }
        let levels = self.tree().verif_levels();
        let populated = levels.iter().filter(|l| !l.is_empty()).count();
        if populated >= 3 {
            self.count("steps.reopen_with_3plus_levels", 1);
        }
        Ok(())
    }

    /////////////////////////////////////////// observers //////////////////////////////////////////

    fn all_edits(&self) -> Result<Vec<EditRec>, String> {
        let mut all = Vec::new();
        for (_, p) in fragment_paths(&self.root) {
            let edits = read_fragment(&p)?;
            // the first edit of every fragment but the oldest repeats the state
            if all.is_empty() {
                all.extend(edits);
            } else {
                all.extend(edits.into_iter().skip(1));
            }
        }
        Ok(all)
    }

    fn listed_on_disk(&self) -> Result<BTreeSet<String>, String> {
        let cur = mani::MANIFEST(lsmtk::MANI_ROOT(&self.root));
        let mut s = BTreeSet::new();
        if !cur.is_file() {
            return Ok(s);
        }
        for e in read_fragment(&cur)? {
            for r in &e.removed {
                s.remove(r);
            }
            for a in &e.added {
                s.insert(a.clone());
            }
        }
        Ok(s)
    }

    fn dump_of(&mut self, root: &Path, name: &str) -> Result<Arc<FileDump>, String> {
        if let Some(d) = self.dumps.get(name) {
            return Ok(Arc::clone(d));
        }
        let p = lsmtk::SST_ROOT(root).join(format!("{name}.sst"));
        let p = if p.is_file() { p } else { lsmtk::TRASH_ROOT(root).join(format!("{name}.sst")) };
        let d = Arc::new(dump_sst(&p).map_err(|e| format!("{}: {e}", p.display()))?);
        self.dumps.insert(name.to_string(), Arc::clone(&d));
        Ok(d)
    }

    fn dump_set(&mut self, root: &Path, listed: &BTreeSet<String>, _before: bool) -> Result<Vec<Entry>, String> {
        let mut all = Vec::new();
        for n in listed {
            let d = self.dump_of(root, n)?;
            all.extend(d.entries.iter().cloned());
        }
        Ok(all)
    }

    fn check_ledger_quiet(&mut self) -> Result<(), ()> {
        for (id, p) in fragment_paths(&self.root) {
            if let Ok(edits) = read_fragment(&p) {
                self.seen_frags.insert(id, edits);
            }
        }
        Ok(())
    }

    /// C04: the ledger monitor.
    pub(crate) fn check_ledger(&mut self) -> Result<(), Viol> {
        let root = self.root.clone();
        let frags = fragment_paths(&root);
        let mut prev_state: Option<(BTreeSet<String>, Option<Setsum>)> = None;
        let mut nedits = 0u64;
        let mut listed: BTreeSet<String> = BTreeSet::new();
        let mut last_o: Option<Setsum> = None;
        let mut read: Vec<(u64, Vec<EditRec>)> = Vec::new();
        for (id, p) in frags.iter() {
            let edits = read_fragment(p).map_err(|e| v("C04", "manifest-unreadable", format!("{}: {e}", p.display())))?;
            // a crash between "link MANIFEST to its backup name" and "rename the new fragment over
            // MANIFEST" leaves the same fragment under two names (the second possibly extended
            // since): one fragment, not two
            if let Some((_, prev)) = read.last() {
                if prev.len() >= 2 && edits.len() >= prev.len() && edits[..prev.len()] == prev[..] {
                    if std::env::var("VH_TRACE_LEVELS").is_ok() {
                        eprintln!("linked twice: fragment {id} ({} edits) extends the previous one ({} edits): {:?}", edits.len(), prev.len(), prev);
                    }
                    read.pop();
                    self.count("c04.fragments_repeating_their_predecessor", 1);
                }
            }
            read.push((*id, edits));
        }
        for (fi, (id, edits)) in read.iter().enumerate() {
            let edits = edits.clone();
            self.seen_frags.insert(*id, edits.clone());
            let mut state: BTreeSet<String> = BTreeSet::new();
            let mut o_prev: Option<Setsum> = None;
            for (ei, e) in edits.iter().enumerate() {
                nedits += 1;
                let (i, o, d) = (hexsum(&e.i), hexsum(&e.o), hexsum(&e.d));
                if ei == 0 {
                    // the roll-up: must be the complete state at the fragment's creation
                    for a in &e.added {
                        state.insert(a.clone());
                    }
                    if fi > 0 {
                        if let Some((pstate, po)) = &prev_state {
                            if &state != pstate {
                                return Err(v("C04", "fragment-does-not-start-with-complete-state", format!("fragment {id} starts with {} strings, the previous fragment ended with {}", state.len(), pstate.len())));
                            }
                            if po.is_some() && o != *po {
                                return Err(v("C04", "fragment-chain-broken", format!("fragment {id} starts from output {:?}, previous fragment ended at {:?}", o.map(|x| x.hexdigest()), po.map(|x| x.hexdigest()))));
                            }
                        }
                    }
                    o_prev = o;
                    continue;
                }
                let (Some(i), Some(o), Some(d)) = (i, o, d) else {
                    return Err(v("C04", "transaction-missing-setsum", format!("fragment {id} edit {ei} lacks I/O/D")));
                };
                if let Some(op) = o_prev {
                    if i != op {
                        return Err(v("C04", "transaction-input-is-not-previous-output", format!("fragment {id} edit {ei}: I = {} but the previous transaction's O = {}", i.hexdigest(), op.hexdigest())));
                    }
                }
                if i != o + d {
                    return Err(v("C04", "transaction-does-not-balance", format!("fragment {id} edit {ei}: I != O + D")));
                }
                let mut computed = Setsum::default();
                for a in &e.added {
                    match Setsum::from_hexdigest(a) {
                        Some(s) => computed -= s,
                        None => return Err(v("C04", "manifest-bad-digest", format!("added string {a} is not a digest"))),
                    }
                }
                for r in &e.removed {
                    match Setsum::from_hexdigest(r) {
                        Some(s) => computed += s,
                        None => return Err(v("C04", "manifest-bad-digest", format!("removed string {r} is not a digest"))),
                    }
                }
                if computed != d {
                    return Err(v("C04", "discard-is-not-removed-minus-added", format!("fragment {id} edit {ei}: D = {} but removed - added = {}", d.hexdigest(), computed.hexdigest())));
                }
                for r in &e.removed {
                    state.remove(r);
                }
                for a in &e.added {
                    state.insert(a.clone());
                }
                o_prev = Some(o);
            }
            prev_state = Some((state.clone(), o_prev));
            listed = state;
            last_o = o_prev;
        }
        self.count("c04.transactions_checked", nedits);
        // O == sum of listed; each listed file present with matching content setsum
        let mut sum = Setsum::default();
        for name in &listed {
            let Some(s) = Setsum::from_hexdigest(name) else {
                return Err(v("C04", "manifest-bad-digest", format!("listed string {name} is not a digest")));
            };
            sum += s;
            let p = lsmtk::SST_ROOT(&root).join(format!("{name}.sst"));
            if !p.is_file() {
                return Err(v("C04", "listed-file-missing", format!("the manifest lists {name} but sst/{name}.sst does not exist")));
            }
            let fresh = self.ledger_checked.insert(name.clone());
            let d = self.dump_of(&root, name).map_err(|e| v("C04", "listed-file-unreadable", e))?;
            if fresh {
                self.count("c04.files_recomputed", 1);
                if hex(&d.content_setsum) != *name {
                    return Err(v("C04", "file-content-setsum-differs-from-name", format!("sst/{name}.sst holds entries whose setsum is {}", hex(&d.content_setsum))));
                }
                if d.md.setsum != d.content_setsum {
                    return Err(v("C04", "final-block-setsum-differs-from-content", format!("sst/{name}.sst: final block says {}", hex(&d.md.setsum))));
                }
            }
        }
        if let Some(o) = last_o {
            if o != sum {
                return Err(v("C04", "output-is-not-sum-of-listed", format!("manifest O = {} but the listed SSTs sum to {}", o.hexdigest(), sum.hexdigest())));
            }
        }
        // the manifest-only verifier must accept every fragment
        for (_, p) in &frags {
            let mv = lsmtk::ManifestVerifier::open().map_err(|e| v("C04", "verifier-open", e.to_string()))?;
            if let Err(e) = mv.verify(p) {
                if self.crash_image {
                    self.count("c04.crash_images_manifest_verifier_rejects", 1);
                    self.steps.push(format!("manifest verifier rejects {}: {e}", p.display()));
                    continue;
                }
                return Err(v("C04", "manifest-verifier-rejects-fault-free-history", format!("{}: {e}", p.display())));
            }
        }
        Ok(())
    }

    /// C01 structural invariant at a quiescent point.
    pub(crate) fn check_structure(&mut self, after_open: bool) -> Result<(), Viol> {
        let root = self.root.clone();
        let levels = self.levels_now();
        if std::env::var("VH_TRACE_LEVELS").is_ok() {
            eprintln!("--- after step {} ({})", self.steps.len(), self.steps.last().cloned().unwrap_or_default());
            for (li, l) in levels.iter().enumerate() {
                for m in l {
                    eprintln!("  L{li} {} [{}..{}] ts {}..{}", &Setsum::from_digest(m.setsum).hexdigest()[..6], show(&m.first_key), show(&m.last_key), m.smallest_timestamp, m.biggest_timestamp);
                }
            }
        }
        // (a) levels >= 1 key-ordered and non-overlapping
        for (li, level) in levels.iter().enumerate().skip(1) {
            for w in level.windows(2) {
                if w[0].last_key > w[1].first_key || w[0].first_key > w[1].first_key {
                    // verified explanation of the known recovery defect: the two files are
                    // mutually reachable in recovery's overlap graph (one strongly connected
                    // component), so recovery gave them one level
                    let all: Vec<&SstMetadata> = levels.iter().flatten().collect();
                    let same_scc = same_component(&all, &w[0], &w[1]);
                    let sig = if after_open && same_scc { "recovery-places-overlapping-files-in-one-level" } else { "level-has-overlapping-files" };
                    return Err(v("C01", sig, format!("level {li} holds [{}..{} ts {}..{}] next to [{}..{} ts {}..{}]{}", show(&w[0].first_key), show(&w[0].last_key), w[0].smallest_timestamp, w[0].biggest_timestamp, show(&w[1].first_key), show(&w[1].last_key), w[1].smallest_timestamp, w[1].biggest_timestamp, if after_open { " immediately after open" } else { "" })));
                }
            }
        }
        // (b) metadata matches file content; (c) lookup order never goes back in time for a key
        let mut order: Vec<&SstMetadata> = Vec::new();
        let mut order_level: Vec<usize> = Vec::new();
        let mut l0: Vec<&SstMetadata> = levels[0].iter().collect();
        // exactly the store's order: a stable ascending sort walked backwards (ties matter)
        l0.sort_by_key(|m| m.biggest_timestamp);
        l0.reverse();
        order_level.extend(std::iter::repeat_n(0, l0.len()));
        order.extend(l0);
        for (li, level) in levels.iter().enumerate().skip(1) {
            order.extend(level.iter());
            order_level.extend(std::iter::repeat_n(li, level.len()));
        }
        let mut last_seen: HashMap<Vec<u8>, (u64, usize)> = HashMap::new(); // key -> (min ts so far, component)
        let mut order_violation: Option<(Vec<u8>, &'static str, String)> = None;
        for (ci, md) in order.iter().enumerate() {
            let name = Setsum::from_digest(md.setsum).hexdigest();
            let d = self.dump_of(&root, &name).map_err(|e| v("C01", "live-file-unreadable", e))?;
            if let (Some(f), Some(l)) = (d.entries.first(), d.entries.last()) {
                let smallest = d.entries.iter().map(|e| e.ts).min().unwrap();
                let biggest = d.entries.iter().map(|e| e.ts).max().unwrap();
                if md.first_key != f.key || md.last_key != l.key || md.smallest_timestamp != smallest || md.biggest_timestamp != biggest {
                    return Err(v("C01", "metadata-does-not-match-file", format!("{name}: metadata {md:?} vs content first={} last={} ts={smallest}..{biggest}", show(&f.key), show(&l.key))));
                }
            }
            let mut per_key: HashMap<&Vec<u8>, (u64, u64)> = HashMap::new();
            for e in &d.entries {
                let x = per_key.entry(&e.key).or_insert((e.ts, e.ts));
                x.0 = x.0.min(e.ts);
                x.1 = x.1.max(e.ts);
            }
            for (k, (mn, mx)) in per_key {
                if let Some((prev_min, pc)) = last_seen.get(k) {
                    if mx >= *prev_min && *pc != ci {
                        let all: Vec<&SstMetadata> = levels.iter().flatten().collect();
                        // recovery gives one level -- level 0 included -- to a whole component
                        let one_level_one_scc = order_level[*pc] == order_level[ci] && same_component(&all, order[*pc], order[ci]);
                        let sig = if after_open && one_level_one_scc {
                            "recovery-places-overlapping-files-in-one-level"
                        } else if after_open {
                            "recovery-orders-older-version-first"
                        } else {
                            "lookup-order-goes-back-in-time"
                        };
                        order_violation = Some((k.clone(), sig, format!("key {}: component {pc} (searched first) holds versions down to @{prev_min}, component {ci} (searched later) holds @{mx}", show(k))));
                        break;
                    }
                }
                let e = last_seen.entry(k.clone()).or_insert((mn, ci));
                if mn < e.0 {
                    *e = (mn, ci);
                }
            }
        }
        if let Some((k, sig, msg)) = order_violation {
            let where_ = self.explain_key(&k);
            return Err(v("C01", sig, format!("{msg}; versions in lookup order: {where_}")));
        }
        let populated = levels.iter().filter(|l| !l.is_empty()).count();
        *self.cov.entry("max.levels_populated".into()).or_insert(0) = (*self.cov.get("max.levels_populated").unwrap_or(&0)).max(populated as u64);
        let deepest = levels.iter().rposition(|l| !l.is_empty()).unwrap_or(0);
        *self.cov.entry("max.deepest_level".into()).or_insert(0) = (*self.cov.get("max.deepest_level").unwrap_or(&0)).max(deepest as u64);
        Ok(())
    }

    fn load(&self, key: &[u8]) -> Result<(Option<Vec<u8>>, bool), String> {
        let mut tomb = false;
        match self.backend.as_ref().unwrap() {
            Backend::Kvs(k) => k.load(key, &mut tomb).map(|x| (x, tomb)).map_err(|e| e.to_string()),
            Backend::Tree(t) => t.load(key, &mut tomb).map(|x| (x, tomb)).map_err(|e| e.to_string()),
        }
    }

    fn scan(&self, sb: &Bound<Vec<u8>>, eb: &Bound<Vec<u8>>) -> Result<Box<dyn Cursor>, String> {
        // the returned `impl Cursor` nominally captures the lifetimes of the bounds; give it
        // bounds that live forever (a few bytes per scan) instead of lying about lifetimes
        let sb: &'static Bound<Vec<u8>> = Box::leak(Box::new(sb.clone()));
        let eb: &'static Bound<Vec<u8>> = Box::leak(Box::new(eb.clone()));
        match self.backend.as_ref().unwrap() {
            Backend::Kvs(k) => {
                let k: &'static KeyValueStore = k;
                k.range_scan(sb, eb).map(|c| Box::new(c) as Box<dyn Cursor>).map_err(|e| e.to_string())
            }
            Backend::Tree(t) => {
                let t: &'static LsmTree = t;
                t.range_scan(sb, eb).map(|c| Box::new(c) as Box<dyn Cursor>).map_err(|e| e.to_string())
            }
        }
    }

    /// Where do the versions of a key live?  (witness detail for read violations)
    fn explain_key(&mut self, key: &[u8]) -> String {
        let root = self.root.clone();
        let levels = self.levels_now();
        let mut out = Vec::new();
        for (li, level) in levels.iter().enumerate() {
            let mut files: Vec<&SstMetadata> = level.iter().collect();
            if li == 0 {
                files.sort_by_key(|m| m.biggest_timestamp);
                files.reverse();
            }
            for md in files {
                let name = Setsum::from_digest(md.setsum).hexdigest();
                if let Ok(d) = self.dump_of(&root, &name) {
                    let vs: Vec<String> = d.entries.iter().filter(|e| e.key == key).map(|e| format!("@{}{}", e.ts, if e.value.is_none() { "x" } else { "" })).collect();
                    let covers = md.first_key.as_slice() <= key && key <= md.last_key.as_slice();
                    if !vs.is_empty() || covers {
                        out.push(format!("L{li}:{}[{}..{} ts {}..{}]{}", &name[..6], show(&md.first_key), show(&md.last_key), md.smallest_timestamp, md.biggest_timestamp, if vs.is_empty() { " (covers, no version)".to_string() } else { format!(" {}", vs.join(",")) }));
                    }
                }
            }
        }
        out.join(" ; ")
    }

    /// C01: every key of the key space plus never-written keys.
    fn check_reads(&mut self) -> Result<(), Viol> {
        let mut probes: Vec<Vec<u8>> = self.keys.clone();
        probes.push(b"never-written".to_vec());
        probes.push(vec![0xfe, 0xfe]);
        let mut multi = false;
        for k in probes {
            let want = self.model.get(&k).cloned().unwrap_or(None);
            let r = guarded(|| self.load(&k));
            let (got, tomb) = match r {
                Ok(Ok(x)) => x,
                Ok(Err(e)) => return Err(v("C01", &format!("error:load:{}", err_code(&e)), format!("load({}) failed: {e}", show(&k)))),
                Err(p) => return Err(v("C01", &format!("panic:{}", panic_site(&p)), format!("load({}) panicked: {p}", show(&k)))),
            };
            if got != want {
                let where_ = self.explain_key(&k);
                let stale = got.is_some() && self.ever.contains(&k);
                return Err(v(
                    "C01",
                    if got.is_none() { "read-lost-write" } else if want.is_none() && self.ever.contains(&k) { "read-returns-deleted-key" } else if stale { "read-returns-stale-value" } else { "read-returns-unwritten-value" },
                    format!("load({}) = {:?}, the last completed write is {:?}; versions of the key in lookup order: {where_}", show(&k), got.as_ref().map(|x| show(x)), want.as_ref().map(|x| show(x))),
                ));
            }
            if tomb && !self.ever.contains(&k) {
                return Err(v("C01", "tombstone-for-unwritten-key", format!("load({}) reports a tombstone for a key never written", show(&k))));
            }
            if tomb && want.is_some() {
                return Err(v("C01", "tombstone-flag-on-live-key", format!("load({}) sets is_tombstone while returning a value", show(&k))));
            }
            if want.is_some() {
                multi = true;
            }
        }
        self.count("c01.read_sweeps", 1);
        if multi {
            self.count("c01.read_sweeps_with_live_keys", 1);
        }
        Ok(())
    }

    /// C03: scans with random bounds and cursor programs vs the model restricted to the bounds.
    fn check_scans(&mut self, rng: &mut Rng, n: usize) -> Result<(), Viol> {
        let mut probes: Vec<Vec<u8>> = self.keys.clone();
        probes.push(vec![]);
        probes.push(vec![0xff; 13]);
        probes.push(b"k".to_vec());
        for _ in 0..n {
            let sb = random_bound(rng, &probes);
            let eb = random_bound(rng, &probes);
            let expect: Vec<Entry> = self
                .model
                .iter()
                .filter(|(k, val)| val.is_some() && in_bounds(k, &sb, &eb))
                .map(|(k, val)| Entry { key: k.clone(), ts: 0, value: val.clone() })
                .collect();
            let prog = program(rng, &probes, 24);
            let mut full = vec![Move::SeekToFirst];
            full.extend(std::iter::repeat_n(Move::Next, expect.len() + 1));
            full.push(Move::SeekToLast);
            full.extend(std::iter::repeat_n(Move::Prev, expect.len() + 1));
            full.extend(prog.iter().cloned());
            let r = guarded(|| -> Result<(), (String, String)> {
                let mut c = self.scan(&sb, &eb).map_err(|e| (format!("error:range_scan:{}", err_code(&e)), format!("range_scan failed: {e}")))?;
                let mut rc = RefCursor::new(&expect);
                for (i, m) in full.iter().enumerate() {
                    apply_real(&mut c, m).map_err(|e| (format!("error:cursor:{}", err_code(&e.to_string())), format!("cursor {} failed: {e}", m.show())))?;
                    rc.apply(m);
                    let got = current_real(&c).map(|mut e| {
                        e.ts = 0;
                        e
                    });
                    let want = rc.current().cloned();
                    if got != want {
                        let sig = match (&got, &want) {
                            (Some(g), _) if !in_bounds(&g.key, &sb, &eb) => "scan-key-outside-bounds",
                            (Some(g), _) if self.model.get(&g.key).map(|x| x.is_none()).unwrap_or(false) => "scan-returns-deleted-key",
                            (Some(g), _) if !self.model.contains_key(&g.key) => "scan-returns-unwritten-key",
                            (Some(g), Some(w)) if g.key == w.key => "scan-returns-stale-value",
                            (None, Some(_)) => "scan-omits-live-key",
                            (Some(g), Some(w)) if g.key > w.key && matches!(m, Move::Next | Move::Seek(_) | Move::SeekToFirst) => "scan-omits-live-key",
                            (Some(g), Some(w)) if g.key < w.key && matches!(m, Move::Prev | Move::SeekToLast) => "scan-omits-live-key",
                            _ => "scan-position-mismatch",
                        };
                        return Err((
                            format!("{sig}:after-{}", crate::c10::move_class(m)),
                            format!("scan {}..{} step {i} {}: cursor at {} but the model says {}; calls so far: {}", show_bound(&sb), show_bound(&eb), m.show(), show_opt(&got), show_opt(&want), full[..=i].iter().map(|m| m.show()).collect::<Vec<_>>().join(" ")),
                        ));
                    }
                }
                Ok(())
            });
            match r {
                Ok(Ok(())) => {}
                Ok(Err((sig, msg))) => return Err(v("C03", &sig, msg)),
                Err(p) => return Err(v("C03", &format!("panic:{}", panic_site(&p)), format!("scan panicked: {p}"))),
            }
            self.count("c03.scans", 1);
            if has_reversal_or_seek(&prog) && expect.len() >= 2 {
                self.count("c03.scans_nontrivial", 1);
            }
            if expect.is_empty() {
                self.count("c03.scans_empty_or_inverted", 1);
            }
        }
        Ok(())
    }

    /// C07: open a pair of cursors; drain one as the reference and hold the other.
    fn step_open_cursor(&mut self, rng: &mut Rng) -> Result<(), Viol> {
        let mut probes: Vec<Vec<u8>> = self.keys.clone();
        probes.push(vec![]);
        let sb = random_bound(rng, &probes);
        let eb = random_bound(rng, &probes);
        self.steps.push(format!("open-cursor {}..{}", show_bound(&sb), show_bound(&eb)));
        let r = guarded(|| -> Result<(Box<dyn Cursor>, Vec<Entry>), String> {
            let mut twin = self.scan(&sb, &eb)?;
            let held = self.scan(&sb, &eb)?;
            let mut reference = Vec::new();
            twin.seek_to_first().map_err(|e| e.to_string())?;
            loop {
                twin.next().map_err(|e| e.to_string())?;
                match current_real(&twin) {
                    Some(e) => reference.push(e),
                    None => break,
                }
            }
            Ok((held, reference))
        });
        match r {
            Ok(Ok((cursor, reference))) => {
                let live: BTreeSet<String> = self.tree().verif_levels().iter().flatten().map(|m| Setsum::from_digest(m.setsum).hexdigest()).collect();
                self.held.push(Held { cursor, reference, pos: -1, live_at_open: live, events_since_open: 0, advanced_after_event: false, opened_at: self.steps.len() });
                self.count("c07.cursors_opened", 1);
                Ok(())
            }
            Ok(Err(e)) => Err(v("C07", &format!("error:open-cursor:{}", err_code(&e)), format!("range_scan failed: {e}"))),
            Err(p) => Err(v("C07", &format!("panic:{}", panic_site(&p)), format!("range_scan panicked: {p}"))),
        }
    }

    fn step_advance_cursors(&mut self, rng: &mut Rng) -> Result<(), Viol> {
        if self.held.is_empty() {
            return Ok(());
        }
        let idx = rng.usize(self.held.len());
        let n = 1 + rng.usize(5);
        let mut probes: Vec<Vec<u8>> = self.keys.clone();
        probes.push(vec![0xff; 13]);
        let prog = program(rng, &probes, n);
        self.steps.push(format!("advance-cursor#{idx} {}", prog.iter().map(|m| m.show()).collect::<Vec<_>>().join(" ")));
        let h = &mut self.held[idx];
        let events = h.events_since_open;
        let opened_at = h.opened_at;
        let r = guarded(|| -> Result<(), (String, String)> {
            let mut rc = RefCursor::new(&h.reference);
            rc.pos = h.pos;
            for m in &prog {
                apply_real(&mut h.cursor, m).map_err(|e| {
                    let s = e.to_string();
                    let sig = if s.contains("No such file") || s.contains("NotFound") { "held-cursor-file-gone".to_string() } else { format!("held-cursor-error:{}", err_code(&s)) };
                    (sig, format!("held cursor (opened at step {opened_at}, {events} store events since) failed on {}: {s}", m.show()))
                })?;
                rc.apply(m);
                let got = current_real(&h.cursor);
                let want = rc.current().cloned();
                if got != want {
                    let newer = got.as_ref().map(|g| !h.reference.iter().any(|r| r.key == g.key && r.ts == g.ts)).unwrap_or(false);
                    return Err((
                        if newer { "held-cursor-shows-later-write".to_string() } else { "held-cursor-diverges-from-snapshot".to_string() },
                        format!("held cursor (opened at step {opened_at}, {events} store events since) after {}: at {} but its snapshot has {}", m.show(), show_opt(&got), show_opt(&want)),
                    ));
                }
            }
            h.pos = rc.pos;
            Ok(())
        });
        match r {
            Ok(Ok(())) => {
                self.count("c07.cursor_advances", 1);
                if events > 0 {
                    self.count("c07.cursor_advances_after_store_events", 1);
                    self.held[idx].advanced_after_event = true;
                }
                if rng.chance(1, 6) {
                    self.held.swap_remove(idx);
                }
                Ok(())
            }
            Ok(Err((sig, msg))) => Err(v("C07", &sig, msg)),
            Err(p) => {
                let sig = if p.contains("not live") { "use-after-free:skiplist-node".to_string() } else { format!("panic:{}", panic_site(&p)) };
                Err(v("C07", &sig, format!("held cursor panicked: {p}")))
            }
        }
    }

    /// C08: what left sst/, the root or trash/ during the last step?
    fn check_removals(&mut self, before: &Listing, after: &Listing, was_verifier: bool) -> Result<(), Viol> {
        let root = self.root.clone();
        let listed = self.listed_on_disk().map_err(|e| v("C04", "manifest-unreadable", e))?;
        for gone in before.sst.difference(&after.sst) {
            self.count("c08.ssts_left_sst_dir", 1);
            let name = gone.trim_end_matches(".sst").to_string();
            if listed.contains(&name) {
                return Err(v("C08", "listed-sst-removed", format!("sst/{gone} left sst/ although the committed manifest lists it")));
            }
            for h in &self.held {
                if h.live_at_open.contains(&name) {
                    return Err(v("C08", "sst-removed-under-live-snapshot", format!("sst/{gone} left sst/ while a cursor opened at step {} still holds the snapshot that names it", h.opened_at)));
                }
            }
            if !after.trash.contains(gone) {
                return Err(v("C08", "sst-unlinked-not-trashed", format!("sst/{gone} vanished without going to trash/")));
            }
        }
        for gone in before.logs.difference(&after.logs) {
            self.count("c08.logs_left_root", 1);
            let p = lsmtk::TRASH_ROOT(&root).join(gone);
            if !p.is_file() {
                return Err(v("C08", "log-unlinked-not-trashed", format!("{gone} vanished from the root without going to trash/")));
            }
            // every entry of that log must be in an SST the manifest lists
            let mut it = sst::LogIterator::new(sst::LogOptions::default(), &p).map_err(|e| v("C08", "trashed-log-unreadable", e.to_string()))?;
            let mut want: Vec<Entry> = Vec::new();
            loop {
                match it.next() {
                    Ok(Some(kv)) => want.push(Entry { key: kv.key.to_vec(), ts: kv.timestamp, value: kv.value.map(|x| x.to_vec()) }),
                    Ok(None) => break,
                    Err(e) => return Err(v("C08", "trashed-log-unreadable", e.to_string())),
                }
            }
            if !want.is_empty() {
                let all = self.dump_set(&root, &listed, false).map_err(|e| v("C08", "dump-failed", e))?;
                let have: HashSet<(&Vec<u8>, u64)> = all.iter().map(|e| (&e.key, e.ts)).collect();
                for e in &want {
                    if !have.contains(&(&e.key, e.ts)) && !self.gc_seen {
                        return Err(v("C08", "log-trashed-before-its-data-is-listed", format!("{gone} went to trash but its entry {}@{} is in no SST the manifest lists", show(&e.key), e.ts)));
                    }
                }
            }
        }
        if !was_verifier {
            for gone in before.trash.difference(&after.trash) {
                // a file may come back from trash only by being re-created in sst/ (never here)
                return Err(v("C08", "trash-entry-unlinked-by-store", format!("trash/{gone} was removed by a step that is not a verifier pass")));
            }
        }
        Ok(())
    }

    ////////////////////////////////////////// the main loop ///////////////////////////////////////

    pub fn run(&mut self, rng: &mut Rng, scratch: &Scratch, nsteps: usize) -> Option<Viol> {
        lsmtk::verif::set_single_step(true);
        skipfree::verif::set_registry(true);
        let res = self.run_inner(rng, scratch, nsteps);
        self.close();
        skipfree::verif::set_registry(false);
        res.err()
    }

    /// Like `run`, but leaves the store open (for a hand-over to real threads).
    pub fn run_keep_open(&mut self, rng: &mut Rng, scratch: &Scratch, nsteps: usize) -> Option<Viol> {
        lsmtk::verif::set_single_step(true);
        self.run_inner(rng, scratch, nsteps).err()
    }

    pub(crate) fn backend_threads(&self, n: usize) -> Vec<std::thread::JoinHandle<Result<(), String>>> {
        let mut hs = Vec::new();
        for _ in 0..n {
            match self.backend.as_ref().unwrap() {
                Backend::Kvs(k) => {
                    let k: &'static KeyValueStore = k;
                    hs.push(std::thread::spawn(move || k.compaction_thread().map_err(|e| e.to_string())));
                }
                Backend::Tree(t) => {
                    let t: &'static LsmTree = t;
                    hs.push(std::thread::spawn(move || t.compaction_thread().map_err(|e| e.to_string())));
                }
            }
        }
        hs
    }

    /// Forget the store without running destructors (real threads still use it).
    pub(crate) fn leak_backend(&mut self) {
        self.held.clear();
        self.backend = None;
    }

    pub(crate) fn reads_ok(&mut self) -> Result<(), Viol> {
        self.check_reads()
    }

    fn run_inner(&mut self, rng: &mut Rng, scratch: &Scratch, nsteps: usize) -> Result<(), Viol> {
        self.open()?;
        self.check_structure(true)?;
        let focus = self.focus.clone();
        for _ in 0..nsteps {
            let before = listing(&self.root);
            let mut was_verifier = false;
            let mut maintenance = false;
            let mut reopened = false;
            let roll = rng.below(100);
            // weights by focus
            let (w_write, w_flush, w_comp, w_ver, w_reopen, w_open, w_adv) = match focus.as_str() {
                "C07" => (30, 14, 22, 4, 2, 10, 18),
                "C08" => (36, 16, 26, 10, 5, 3, 4),
                "C05" | "C20" => (40, 22, 32, 2, 2, 1, 1),
                "C04" => (38, 18, 30, 6, 4, 2, 2),
                _ => (42, 17, 28, 4, 3, 3, 3),
            };
            let mut acc = w_write;
            if roll < acc {
                if self.tmode { self.step_ingest(rng, scratch)? } else { self.step_write(rng)? }
            } else if roll < { acc += w_flush; acc } {
                if self.tmode {
                    self.step_ingest(rng, scratch)?;
                } else if self.step_flush()? {
                    maintenance = true;
                }
            } else if roll < { acc += w_comp; acc } {
                if self.step_compaction()? {
                    maintenance = true;
                }
            } else if roll < { acc += w_ver; acc } {
                self.step_verifier()?;
                was_verifier = true;
                maintenance = true;
                if rng.chance(1, 3) {
                    let b2 = listing(&self.root);
                    self.check_removals(&before, &b2, true)?;
                    self.step_reopen()?;
                    reopened = true;
                    self.count("c08.reopens_after_verifier_pass", 1);
                }
            } else if roll < { acc += w_reopen; acc } {
                self.step_reopen()?;
                maintenance = true;
                reopened = true;
            } else if roll < { acc += w_open; acc } {
                if self.held.len() < 3 {
                    self.step_open_cursor(rng)?;
                }
            } else if roll < acc + w_adv {
                self.step_advance_cursors(rng)?;
            }
            let after = listing(&self.root);
            if !reopened || !was_verifier {
                self.check_removals(&before, &after, was_verifier)?;
            }
            if before.sst != after.sst || before.trash != after.trash || before.logs != after.logs {
                self.nontrivial = true;
            }
            if maintenance {
                self.check_structure(reopened)?;
                self.check_ledger()?;
            }
            self.check_reads()?;
            self.check_scans(rng, if focus == "C03" { 4 } else { 2 })?;
        }
        // final: quiesce everything and re-check
        self.step_advance_cursors(rng)?;
        self.held.clear();
        self.check_ledger()?;
        self.check_structure(false)?;
        Ok(())
    }
}

/// The inputs the level-0 compaction cannot do without: every level-0 file plus the level-1 files
/// its key range reaches, extended to a fixed point the way `compute_bounds` does (a level-1 file
/// that is pulled in widens the range).
pub fn l0_compaction_inputs(levels: &[Vec<SstMetadata>]) -> usize {
    let l0 = &levels[0];
    if l0.is_empty() {
        return 0;
    }
    let mut lo = l0.iter().map(|m| m.first_key.clone()).min().unwrap();
    let mut hi = l0.iter().map(|m| m.last_key.clone()).max().unwrap();
    let mut n1;
    loop {
        let hit: Vec<&SstMetadata> = levels[1].iter().filter(|m| m.first_key <= hi && lo <= m.last_key).collect();
        n1 = hit.len();
        let lo2 = hit.iter().map(|m| m.first_key.clone()).min().map(|x| x.min(lo.clone())).unwrap_or(lo.clone());
        let hi2 = hit.iter().map(|m| m.last_key.clone()).max().map(|x| x.max(hi.clone())).unwrap_or(hi.clone());
        if lo2 == lo && hi2 == hi {
            break;
        }
        lo = lo2;
        hi = hi2;
    }
    l0.len() + n1
}

/// Recovery's overlap graph: an edge from the newer to the older of two key-overlapping files, and
/// edges both ways when their timestamp ranges overlap as well.  Are a and b mutually reachable?
fn same_component(all: &[&SstMetadata], a: &SstMetadata, b: &SstMetadata) -> bool {
    let n = all.len();
    let mut adj: Vec<Vec<usize>> = vec![Vec::new(); n];
    for i in 0..n {
        for j in i + 1..n {
            let (x, y) = (all[i], all[j]);
            if !(x.first_key <= y.last_key && y.first_key <= x.last_key) {
                continue;
            }
            if x.biggest_timestamp < y.smallest_timestamp {
                adj[j].push(i);
            } else if y.biggest_timestamp < x.smallest_timestamp {
                adj[i].push(j);
            } else {
                adj[i].push(j);
                adj[j].push(i);
            }
        }
    }
    let idx = |m: &SstMetadata| all.iter().position(|x| x.setsum == m.setsum);
    let (Some(ia), Some(ib)) = (idx(a), idx(b)) else { return false };
    let reach = |from: usize, to: usize| {
        let mut seen = vec![false; n];
        let mut stack = vec![from];
        while let Some(x) = stack.pop() {
            if x == to {
                return true;
            }
            if std::mem::replace(&mut seen[x], true) {
                continue;
            }
            stack.extend(adj[x].iter().copied());
        }
        false
    };
    reach(ia, ib) && reach(ib, ia)
}

pub fn err_code(e: &str) -> String {
    // "(error (phase x) (code y) ..." -> "x/y"
    let phase = e.split("(phase ").nth(1).and_then(|s| s.split(')').next()).unwrap_or("?");
    let code = e.split("(code ").nth(1).and_then(|s| s.split(')').next()).unwrap_or("?");
    format!("{phase}/{code}")
}

pub fn run(args: &Args) {
    let focus = args.str("focus", "C01");
    let mut rep = Report::new(&format!("e1:{focus}"), args);
    rep.max_samples = 3;
    let histories = args.u64("histories", 20);
    let steps = args.u64("steps", 80) as usize;
    let (seed, shard) = (rep.seed, rep.shard);
    let scratch = Scratch::new("e1");
    let only = args.opt("history").map(|c| c.parse::<u64>().unwrap());
    let mut others: BTreeMap<String, u64> = BTreeMap::new();
    for hno in 0..histories {
        if only.is_some() && only != Some(hno) {
            continue;
        }
        let mut rng = Rng::derive(seed, "e1", shard, hno);
        let tmode = rng.chance(1, 4) && focus != "C07";
        let len = if rng.chance(1, 5) { steps * 3 } else { steps };
        let mut h = History::new(&mut rng, &scratch, &format!("h{hno}"), &focus, tmode);
        let viol = h.run(&mut rng, &scratch, len);
        rep.evaluations += 1;
        for (k, n) in &h.cov {
            if k.starts_with("max.") {
                rep.max(k, *n);
            } else {
                rep.count(k, *n);
            }
        }
        rep.count("steps.total", h.steps.len() as u64);
        rep.count(if tmode { "histories.tree_mode" } else { "histories.kvs_mode" }, 1);
        let mut hh = SHash::default();
        hh.u64(hno).u64(shard).u64(seed).u64(h.steps.len() as u64);
        for s in h.steps.iter().take(40) {
            hh.str(s);
        }
        let nontrivial = match focus.as_str() {
            "C07" => h.held.is_empty() && *h.cov.get("c07.cursor_advances_after_store_events").unwrap_or(&0) > 0,
            "C05" => *h.cov.get("c05.compactions_with_2plus_inputs").unwrap_or(&0) > 0,
            "C20" => *h.cov.get("c20.states_with_ingest_stalled").unwrap_or(&0) > 0,
            "C08" => h.nontrivial,
            "C04" => *h.cov.get("steps.merge").unwrap_or(&0) + *h.cov.get("steps.gc").unwrap_or(&0) > 0,
            "C03" => *h.cov.get("c03.scans_nontrivial").unwrap_or(&0) > 0 && (*h.cov.get("steps.flush").unwrap_or(&0) > 0 || tmode),
            _ => *h.cov.get("steps.merge").unwrap_or(&0) + *h.cov.get("steps.gc").unwrap_or(&0) + *h.cov.get("steps.reopen").unwrap_or(&0) > 0,
        };
        if nontrivial {
            rep.nontrivial.insert(hh.get());
            if rep.want_sample() {
                rep.sample(json!({"history": hno, "mode": if tmode { "LsmTree" } else { "KeyValueStore" }, "config": h.cfg.json(), "keys": h.keys.len(),
                    "steps": h.steps.len(), "first_steps": h.steps.iter().take(25).collect::<Vec<_>>()}));
            }
        }
        if let Some(vi) = viol {
            rep.count("histories.ended_early", 1);
            let detail = json!({"history": hno, "mode": if tmode { "LsmTree" } else { "KeyValueStore" }, "config": h.cfg.json(),
                "message": vi.msg, "property": vi.prop, "steps_executed": h.steps.len(),
                "last_steps": h.steps.iter().rev().take(30).rev().collect::<Vec<_>>(),
                "replay": format!("vh e1 focus={focus} seed={seed} shard={shard} histories={} steps={steps} history={hno}", hno + 1)});
            if vi.prop.split('|').any(|p| p == focus) {
                rep.violation(&format!("e1:{focus}"), &vi.sig, detail);
            } else {
                *others.entry(format!("{}:{}", vi.prop, vi.sig)).or_insert(0) += 1;
                rep.count("histories.ended_by_other_property", 1);
            }
        }
        if std::env::var("VH_KEEP").is_err() {
            let _ = std::fs::remove_dir_all(&h.root);
        } else {
            let keep = PathBuf::from(format!("/verif/out/keep-h{hno}"));
            let _ = std::fs::remove_dir_all(&keep);
            let _ = std::process::Command::new("cp").arg("-r").arg(&h.root).arg(&keep).status();
        }
    }
    rep.notes.insert("violations_of_other_properties_observed".into(), json!(others));
    rep.finish(args);
}
