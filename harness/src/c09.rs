//! C09 — damage to persistent files is detected or harmless: never silent, never a panic, never an
//! allocation that the file's size does not bound.
//!
//! Differential runtime monitor: every access path is run on the pristine file first; then on
//! copies with one (or two) injected damages.  The damaged run must either report an error or
//! return exactly what the pristine run returned; whatever it returned before an error must be a
//! prefix of the pristine answer (an entry that differs is "returned as if genuine").  Panics are
//! caught and reported; aborts and allocation-cap exits kill the shard and are reported by the
//! driver; the peak single allocation request during a damaged run is compared with the pristine
//! run's and the file size.

use std::collections::{BTreeMap, BTreeSet};
use std::path::Path;

use mani::{Edit, Manifest, ManifestIterator, ManifestOptions};
use serde_json::json;
use sst::log::{LogBuilder, LogIterator, LogOptions, WriteBatch};
use sst::{Builder, Cursor, Sst, SstBuilder};

use crate::c10::TableOpts;
use crate::r#gen::{Entry, current_real, sorted_entries};
use crate::util::*;

////////////////////////////////////////////// damage //////////////////////////////////////////////

#[derive(Clone, Debug)]
pub enum Damage {
    Flip { off: usize, bit: u8 },
    Overwrite { off: usize, byte: u8 },
    Zero { off: usize, len: usize },
    Truncate { len: usize },
    Append { bytes: Vec<u8> },
}

impl Damage {
    fn apply(&self, b: &mut Vec<u8>) {
        match self {
            Damage::Flip { off, bit } => {
                if *off < b.len() {
                    b[*off] ^= 1 << bit;
                }
            }
            Damage::Overwrite { off, byte } => {
                if *off < b.len() {
                    b[*off] = *byte;
                }
            }
            Damage::Zero { off, len } => {
                for i in *off..(*off + *len).min(b.len()) {
                    b[i] = 0;
                }
            }
            Damage::Truncate { len } => b.truncate(*len),
            Damage::Append { bytes } => b.extend_from_slice(bytes),
        }
    }

    fn show(&self) -> String {
        match self {
            Damage::Flip { off, bit } => format!("flip bit {bit} of byte {off}"),
            Damage::Overwrite { off, byte } => format!("overwrite byte {off} with {byte:#04x}"),
            Damage::Zero { off, len } => format!("zero {len} bytes at {off}"),
            Damage::Truncate { len } => format!("truncate to {len} bytes"),
            Damage::Append { bytes } => format!("append {} bytes", bytes.len()),
        }
    }

    fn class(&self) -> &'static str {
        match self {
            Damage::Flip { .. } => "flip",
            Damage::Overwrite { .. } => "overwrite",
            Damage::Zero { .. } => "zero",
            Damage::Truncate { .. } => "truncate",
            Damage::Append { .. } => "append",
        }
    }

    fn is_truncation(&self) -> bool {
        matches!(self, Damage::Truncate { .. })
    }

    fn first_offset(&self, size: usize) -> usize {
        match self {
            Damage::Flip { off, .. } | Damage::Overwrite { off, .. } | Damage::Zero { off, .. } => *off,
            Damage::Truncate { len } => *len,
            Damage::Append { .. } => size,
        }
    }
}

/// Sampled damages over a file with named regions (start, limit); small regions exhaustively.
fn damages(rng: &mut Rng, bytes: &[u8], regions: &[(&'static str, usize, usize)], budget: usize, exhaustive_small: usize, copies: bool) -> Vec<(Damage, &'static str)> {
    let n = bytes.len();
    let mut out: Vec<(Damage, &'static str)> = Vec::new();
    let region_of = |off: usize| -> &'static str { regions.iter().find(|r| off >= r.1 && off < r.2).map(|r| r.0).unwrap_or("other") };
    // exhaustive single-bit flips over small regions
    for (name, s, l) in regions {
        if l > s && l - s <= exhaustive_small {
            for off in *s..*l {
                for bit in 0..8 {
                    out.push((Damage::Flip { off, bit }, name));
                }
            }
        }
    }
    // stratified samples
    let live: Vec<&(&'static str, usize, usize)> = regions.iter().filter(|r| r.2 > r.1).collect();
    for i in 0..budget {
        if live.is_empty() || n == 0 {
            break;
        }
        let r = live[i % live.len()];
        let off = r.1 + rng.usize(r.2 - r.1);
        let d = match rng.below(10) {
            0..=4 => Damage::Flip { off, bit: rng.below(8) as u8 },
            5 => Damage::Overwrite { off, byte: 0 },
            6 => Damage::Overwrite { off, byte: 0xff },
            7 => Damage::Overwrite { off, byte: rng.below(256) as u8 },
            8 => Damage::Overwrite { off, byte: bytes[off].wrapping_add(1) },
            _ => Damage::Zero { off, len: 1 + rng.usize(64) },
        };
        out.push((d, r.0));
    }
    // truncations: every length when small, else around region edges plus samples
    if n <= 2500 {
        for len in 0..n {
            out.push((Damage::Truncate { len }, region_of(len)));
        }
    } else {
        let mut lens: BTreeSet<usize> = BTreeSet::new();
        for (_, s, l) in regions {
            for d in 0..12 {
                lens.insert(s.saturating_sub(d));
                lens.insert((s + d).min(n - 1));
                lens.insert(l.saturating_sub(d));
            }
        }
        for _ in 0..(budget / 3).max(50) {
            lens.insert(rng.usize(n));
        }
        for d in 0..40 {
            lens.insert(n - 1 - d.min(n - 1));
        }
        for len in lens {
            if len < n {
                out.push((Damage::Truncate { len }, region_of(len)));
            }
        }
    }
    // appended suffixes
    let rl = 1 + rng.usize(40);
    // (a suffix that is itself a well-formed record -- a copy of the file's own records, a bare
    // manifest separator -- is not damage any reader could tell from data, and is not generated)
    let mut suffixes: Vec<Vec<u8>> = vec![vec![0], vec![0; 8], vec![0xff; 8], vec![b'\n'], b"-------".to_vec(), rng.bytes(rl), vec![0; 4096]];
    if n >= 64 && copies {
        suffixes.push(bytes[n - 61..].to_vec()); // a copy of the tail
        suffixes.push(bytes[..61].to_vec()); // a copy of the head
    }
    for s in suffixes {
        out.push((Damage::Append { bytes: s }, "appended"));
    }
    out
}

/// Offset of the first byte at which the damaged image differs from the pristine one, and whether
/// the damaged image is a proper prefix of the pristine one (a pure truncation in effect).
fn first_difference(pristine: &[u8], damaged: &[u8]) -> (usize, bool) {
    let common = pristine.iter().zip(damaged.iter()).take_while(|(a, b)| a == b).count();
    (common, common == damaged.len() && damaged.len() < pristine.len())
}

//////////////////////////////////////////////// SST ///////////////////////////////////////////////

fn varint(b: &[u8], i: &mut usize) -> Option<u64> {
    let mut x = 0u64;
    let mut shift = 0;
    loop {
        let c = *b.get(*i)?;
        *i += 1;
        x |= ((c & 0x7f) as u64) << shift;
        if c & 0x80 == 0 {
            return Some(x);
        }
        shift += 7;
        if shift > 63 {
            return None;
        }
    }
}

/// Independent reading of the final block: (index start, index limit, filter start, filter limit, final offset).
fn sst_regions(bytes: &[u8]) -> Option<(usize, usize, usize, usize, usize)> {
    let n = bytes.len();
    if n < 8 {
        return None;
    }
    let final_off = u64::from_le_bytes(bytes[n - 8..].try_into().ok()?) as usize;
    if final_off >= n {
        return None;
    }
    let fb = &bytes[final_off..];
    let mut i = 0;
    let mut idx = (0usize, 0usize);
    let mut flt = (0usize, 0usize);
    while i < fb.len() {
        let tag = varint(fb, &mut i)?;
        let (field, wire) = (tag >> 3, tag & 7);
        match wire {
            0 => {
                varint(fb, &mut i)?;
            }
            1 => i += 8,
            5 => i += 4,
            2 => {
                let len = varint(fb, &mut i)? as usize;
                let body = fb.get(i..i + len)?;
                if field == 16 || field == 17 {
                    let mut j = 0;
                    let (mut s, mut l) = (0usize, 0usize);
                    while j < body.len() {
                        let t = varint(body, &mut j)?;
                        match (t >> 3, t & 7) {
                            (13, 0) => s = varint(body, &mut j)? as usize,
                            (14, 0) => l = varint(body, &mut j)? as usize,
                            (_, 0) => {
                                varint(body, &mut j)?;
                            }
                            (_, 5) => j += 4,
                            (_, 1) => j += 8,
                            _ => return None,
                        }
                    }
                    if field == 16 { idx = (s, l) } else { flt = (s, l) }
                }
                i += len;
            }
            _ => return None,
        }
    }
    Some((idx.0, idx.1, flt.0, flt.1, final_off))
}

/// Name the part of an SST an offset lies in; inside the final block, the field.
fn sst_part(bytes: &[u8], off: usize) -> String {
    let Some((is, il, fs, fl, fo)) = sst_regions(bytes) else { return "unparsable".into() };
    if off < is {
        return "data-blocks".into();
    }
    if off < il {
        return "index-block".into();
    }
    if off >= fs && off < fl {
        return "filter-block".into();
    }
    if off < fo {
        return "between-blocks".into();
    }
    // walk the final block's fields
    let fb = &bytes[fo..];
    let mut i = 0;
    while i < fb.len() {
        let start = i;
        let Some(tag) = varint(fb, &mut i) else { break };
        let (field, wire) = (tag >> 3, tag & 7);
        match wire {
            0 => {
                if varint(fb, &mut i).is_none() {
                    break;
                }
            }
            1 => i += 8,
            5 => i += 4,
            2 => {
                let Some(len) = varint(fb, &mut i) else { break };
                i += len as usize;
            }
            _ => break,
        }
        if off - fo >= start && off - fo < i {
            return match field {
                16 => "final-block:index-block-position".into(),
                17 => "final-block:filter-block-position".into(),
                19 => "final-block:setsum".into(),
                20 | 21 => "final-block:timestamps".into(),
                18 => "final-block:final-block-offset".into(),
                _ => format!("final-block:field-{field}"),
            };
        }
    }
    "final-block".into()
}

#[derive(Clone, Debug, PartialEq)]
struct SstObs {
    open: Option<String>,
    fwd: (Vec<Entry>, Option<String>),
    bwd: (Vec<Entry>, Option<String>),
    loads: Vec<Result<(Option<Vec<u8>>, bool), String>>,
}

fn observe_sst(path: &Path, probes: &[(Vec<u8>, u64)]) -> SstObs {
    let mut o = SstObs { open: None, fwd: (vec![], None), bwd: (vec![], None), loads: vec![] };
    let sst = match Sst::<sst::file_manager::FileHandle>::new(sst::SstOptions::default(), path) {
        Ok(s) => s,
        Err(e) => {
            o.open = Some(e.to_string());
            return o;
        }
    };
    let limit = 200_000;
    let mut c = sst.cursor();
    match c.seek_to_first() {
        Err(e) => o.fwd.1 = Some(e.to_string()),
        Ok(()) => loop {
            match c.next() {
                Err(e) => {
                    o.fwd.1 = Some(e.to_string());
                    break;
                }
                Ok(()) => match current_real(&c) {
                    Some(e) => o.fwd.0.push(e),
                    None => break,
                },
            }
            if o.fwd.0.len() > limit {
                o.fwd.1 = Some("walk does not terminate".into());
                break;
            }
        },
    }
    let mut c = sst.cursor();
    match c.seek_to_last() {
        Err(e) => o.bwd.1 = Some(e.to_string()),
        Ok(()) => loop {
            match c.prev() {
                Err(e) => {
                    o.bwd.1 = Some(e.to_string());
                    break;
                }
                Ok(()) => match current_real(&c) {
                    Some(e) => o.bwd.0.push(e),
                    None => break,
                },
            }
            if o.bwd.0.len() > limit {
                o.bwd.1 = Some("walk does not terminate".into());
                break;
            }
        },
    }
    for (k, ts) in probes {
        let mut tomb = false;
        o.loads.push(sst.load(k, *ts, &mut tomb).map(|v| (v, tomb)).map_err(|e| e.to_string()));
    }
    o
}

/// None = detected or harmless; Some(class, message) = silent difference.
fn judge_seq(what: &str, pristine: &(Vec<Entry>, Option<String>), got: &(Vec<Entry>, Option<String>)) -> Option<(String, String)> {
    for (i, e) in got.0.iter().enumerate() {
        match pristine.0.get(i) {
            Some(p) if p == e => {}
            Some(p) => return Some((format!("{what}:different-entry-returned"), format!("{what} entry {i}: pristine {} but the damaged file yields {}", p.show(), e.show()))),
            None => return Some((format!("{what}:extra-entry-returned"), format!("{what} yields {} beyond the {} entries of the pristine file", e.show(), pristine.0.len()))),
        }
    }
    if got.1.is_none() && got.0.len() < pristine.0.len() {
        return Some((format!("{what}:entries-missing-without-error"), format!("{what} ends cleanly after {} of {} entries", got.0.len(), pristine.0.len())));
    }
    None
}

fn judge_sst(p: &SstObs, g: &SstObs, probes: &[(Vec<u8>, u64)]) -> Option<(String, String)> {
    if g.open.is_some() {
        return None;
    }
    if let Some(x) = judge_seq("forward-walk", &p.fwd, &g.fwd) {
        return Some(x);
    }
    if let Some(x) = judge_seq("backward-walk", &p.bwd, &g.bwd) {
        return Some(x);
    }
    for (i, l) in g.loads.iter().enumerate() {
        if let (Ok(got), Some(Ok(want))) = (l, p.loads.get(i)) {
            if got != want {
                return Some(("load:different-answer".into(), format!("load({}, @{}) = {:?} on the pristine file, {:?} on the damaged one", show(&probes[i].0), probes[i].1, want.0.as_ref().map(|v| show(&v[..v.len().min(12)])), got.0.as_ref().map(|v| show(&v[..v.len().min(12)])))));
            }
        }
    }
    None
}

//////////////////////////////////////////////// log ///////////////////////////////////////////////

fn build_small_log(rng: &mut Rng) -> Option<(Vec<u8>, Vec<Vec<Entry>>, Vec<usize>)> {
    let mut bytes: Vec<u8> = Vec::new();
    let mut batches = Vec::new();
    let mut ends = Vec::new();
    {
        let mut log = LogBuilder::from_write(LogOptions::default(), &mut bytes).ok()?;
        let n = 2 + rng.usize(14);
        let mut ts = 1u64;
        for _ in 0..n {
            let mut wb = WriteBatch::default();
            let mut es = Vec::new();
            for _ in 0..1 + rng.usize(4) {
                let key = format!("key{:03}", rng.below(50)).into_bytes();
                let e = if rng.chance(1, 5) {
                    Entry { key, ts, value: None }
                } else {
                    let len = match rng.below(10) {
                        0 => 0,
                        1 => 300 + rng.usize(900),
                        _ => 1 + rng.usize(30),
                    };
                    Entry { key, ts, value: Some(rng.bytes(len)) }
                };
                let r = match &e.value {
                    Some(v) => wb.put(&e.key, e.ts, v),
                    None => wb.del(&e.key, e.ts),
                };
                r.ok()?;
                es.push(e);
                ts += 1;
            }
            log.append(&wb).ok()?;
            ends.push(log.approximate_size());
            batches.push(es);
        }
        log.flush().ok()?;
    }
    Some((bytes, batches, ends))
}

fn drain_log(bytes: &[u8]) -> (Vec<Entry>, Option<String>) {
    let mut out = Vec::new();
    let mut it = match LogIterator::from_reader(LogOptions::default(), std::io::Cursor::new(bytes)) {
        Ok(it) => it,
        Err(e) => return (out, Some(e.to_string())),
    };
    loop {
        match it.next() {
            Ok(Some(kv)) => out.push(Entry { key: kv.key.to_vec(), ts: kv.timestamp, value: kv.value.map(|v| v.to_vec()) }),
            Ok(None) => return (out, None),
            Err(e) => return (out, Some(e.to_string())),
        }
        if out.len() > 200_000 {
            return (out, Some("does not terminate".into()));
        }
    }
}

////////////////////////////////////////////// manifest ////////////////////////////////////////////

type EditObs = (Vec<String>, Vec<String>, BTreeMap<char, String>);
const INFO_KEYS: &[char] = &['I', 'O', 'D', 'L', 'M', 'A', 'Z', 'x'];

fn mani_options() -> ManifestOptions {
    let (o, _) = <ManifestOptions as arrrg::CommandLine>::from_arguments_relaxed("c09", &["--log-rollover-ratio", "1000"]);
    o
}

fn edit_obs(e: &Edit) -> EditObs {
    let mut info = BTreeMap::new();
    for k in INFO_KEYS {
        if let Some(v) = e.get_info(*k) {
            info.insert(*k, v.clone());
        }
    }
    (e.added().cloned().collect(), e.rmed().cloned().collect(), info)
}

fn iterate_manifest(path: &Path) -> (Vec<EditObs>, Option<String>) {
    let mut out = Vec::new();
    let it = match ManifestIterator::open(path) {
        Ok(it) => it,
        Err(e) => return (out, Some(e.to_string())),
    };
    for e in it {
        match e {
            Ok(e) => out.push(edit_obs(&e)),
            Err(e) => return (out, Some(e.to_string())),
        }
        if out.len() > 100_000 {
            return (out, Some("does not terminate".into()));
        }
    }
    (out, None)
}

type ManiState = (BTreeSet<String>, BTreeMap<char, String>);

fn open_manifest(dir: &Path) -> Result<ManiState, String> {
    let m = Manifest::open(mani_options(), dir).map_err(|e| e.to_string())?;
    let strs: BTreeSet<String> = m.strs().map(|s| s.to_string()).collect();
    let mut info = BTreeMap::new();
    for k in INFO_KEYS {
        if let Some(v) = m.info(*k) {
            info.insert(*k, v.to_string());
        }
    }
    Ok((strs, info))
}

fn state_after(edits: &[EditObs]) -> ManiState {
    let mut s: ManiState = (BTreeSet::new(), BTreeMap::new());
    for (adds, rms, info) in edits {
        for r in rms {
            s.0.remove(r);
        }
        for a in adds {
            s.0.insert(a.clone());
        }
        for (k, v) in info {
            s.1.insert(*k, v.clone());
        }
    }
    s
}

/////////////////////////////////////////////// driver /////////////////////////////////////////////

struct Ctx<'a> {
    rep: &'a mut Report,
    seed: u64,
    shard: u64,
}

impl Ctx<'_> {
    fn viol(&mut self, kind: &str, class: &str, case_no: u64, damage: &[Damage], region: &str, msg: String, extra: serde_json::Value) {
        let (seed, shard) = (self.seed, self.shard);
        self.rep.violation(
            "c09",
            &format!("{kind}:{class}"),
            json!({"file": kind, "case": case_no, "damage": damage.iter().map(|d| d.show()).collect::<Vec<_>>(), "region": region, "message": msg, "detail": extra,
                "replay": format!("vh c09 seed={seed} shard={shard} only={kind} {kind}_cases={} case={case_no}", case_no + 1)}),
        );
    }
}

fn alloc_bound(pristine_peak: usize, file_size: usize) -> usize {
    (4 * pristine_peak).max((8 << 20) + 4 * file_size)
}

pub fn run(args: &Args) {
    let mut rep = Report::new("c09", args);
    rep.max_samples = 4;
    let sst_cases = args.u64("sst_cases", 6);
    let log_cases = args.u64("log_cases", 6);
    let mani_cases = args.u64("mani_cases", 6);
    let budget = args.u64("budget", 600) as usize;
    let pairs = args.u64("pairs", 150) as usize;
    let only = args.opt("only");
    let only_case = args.opt("case").map(|c| c.parse::<u64>().unwrap());
    let (seed, shard) = (rep.seed, rep.shard);
    let scratch = Scratch::new("c09");
    quiet_panics();
    let want = |k: &str| only.as_deref().map(|o| o == k).unwrap_or(true);

    // ------------------------------------------------------------------------------------ SSTs
    for case_no in 0..sst_cases {
        if !want("sst") || (only_case.is_some() && only_case != Some(case_no)) {
            continue;
        }
        crate::alloc::set_case(case_no);
        let mut rng = Rng::derive(seed, "c09-sst", shard, case_no);
        let nk = 2 + rng_usize_small(&mut rng);
        let entries = sorted_entries(&mut rng, nk, false);
        if entries.is_empty() {
            continue;
        }
        let mut opts = TableOpts::random(&mut rng);
        opts.target_block = 4096;
        let path = scratch.path.join(format!("sst-{case_no}.sst"));
        let _ = std::fs::remove_file(&path);
        let built = guarded(|| -> Result<(), String> {
            let mut b = SstBuilder::new(opts.sst(), &path).map_err(|e| e.to_string())?;
            for e in &entries {
                match &e.value {
                    Some(v) => b.put(&e.key, e.ts, v),
                    None => b.del(&e.key, e.ts),
                }
                .map_err(|e| e.to_string())?;
            }
            b.seal().map_err(|e| e.to_string())?;
            Ok(())
        });
        if !matches!(built, Ok(Ok(()))) {
            rep.count("sst.build_failed", 1);
            continue;
        }
        let bytes = std::fs::read(&path).unwrap_or_default();
        let Some((is, il, fs, fl, fo)) = sst_regions(&bytes) else {
            rep.inconclusive.push(format!("sst case {case_no}: the harness cannot parse the final block"));
            continue;
        };
        let regions: Vec<(&'static str, usize, usize)> = vec![("data-blocks", 0, is), ("index-block", is, il), ("filter-block", fs, fl), ("final-block", fo, bytes.len())];
        // probes: every distinct key at max timestamp and at one of its versions, plus absent keys
        let mut probes: Vec<(Vec<u8>, u64)> = Vec::new();
        let mut last: Option<&Vec<u8>> = None;
        for e in &entries {
            if last != Some(&e.key) {
                probes.push((e.key.clone(), u64::MAX));
                probes.push((e.key.clone(), e.ts.saturating_sub(1)));
                last = Some(&e.key);
            }
            if probes.len() > 60 {
                break;
            }
        }
        probes.push((b"\xfe-absent".to_vec(), u64::MAX));
        probes.push((Vec::new(), u64::MAX));
        crate::alloc::reset_peak();
        let pristine = observe_sst(&path, &probes);
        let pristine_peak = crate::alloc::peak_request();
        if pristine.open.is_some() || pristine.fwd.1.is_some() || pristine.fwd.0 != entries {
            rep.violation("c09", "sst:pristine-file-misread", json!({"case": case_no, "message": format!("the undamaged file does not read back: open {:?}, walk error {:?}, {} of {} entries", pristine.open, pristine.fwd.1, pristine.fwd.0.len(), entries.len())}));
            continue;
        }
        let dpath = scratch.path.join(format!("sst-{case_no}-damaged.sst"));
        let mut list = damages(&mut rng, &bytes, &regions, budget, 700, true);
        // pairs of damages
        let singles: Vec<(Damage, &'static str)> = list.iter().filter(|d| !matches!(d.0, Damage::Append { .. })).cloned().collect();
        let mut multi: Vec<(Vec<Damage>, &'static str)> = list.drain(..).map(|(d, r)| (vec![d], r)).collect();
        for _ in 0..pairs {
            let a = rng.pick(&singles).clone();
            let b = rng.pick(&singles).clone();
            multi.push((vec![a.0, b.0], "two-damages"));
        }
        let mut hh = SHash::default();
        hh.u64(seed).u64(shard).u64(case_no).bytes(&bytes[..bytes.len().min(256)]);
        let nblocks = (is / 4096).max(1);
        if entries.len() >= 2 {
            rep.nontrivial.insert(hh.get());
        }
        if rep.want_sample() {
            rep.sample(json!({"file": "sst", "case": case_no, "bytes": bytes.len(), "entries": entries.len(), "approx_data_blocks": nblocks, "regions": regions.iter().map(|r| format!("{} {}..{}", r.0, r.1, r.2)).collect::<Vec<_>>(), "damages": multi.len()}));
        }
        for (ds, region) in &multi {
            let mut b = bytes.clone();
            for d in ds {
                d.apply(&mut b);
            }
            if b == bytes {
                continue;
            }
            if std::fs::write(&dpath, &b).is_err() {
                continue;
            }
            rep.evaluations += 1;
            rep.count(&format!("sst.damages.{region}"), 1);
            rep.count(&format!("sst.damages.kind.{}", ds[0].class()), 1);
            crate::alloc::reset_peak();
            let r = guarded(|| observe_sst(&dpath, &probes));
            let peak = crate::alloc::peak_request();
            match r {
                Err(p) => {
                    let site = panic_site(&p);
                    Ctx { rep: &mut rep, seed, shard }.viol("sst", &format!("panic:{site}"), case_no, ds, region, format!("reading the damaged file panicked: {p}"), json!({}));
                }
                Ok(obs) => {
                    if obs.open.is_some() {
                        rep.count("sst.detected_at_open", 1);
                    } else if obs.fwd.1.is_some() || obs.bwd.1.is_some() || obs.loads.iter().any(|l| l.is_err()) {
                        rep.count("sst.detected_while_reading", 1);
                    } else {
                        rep.count("sst.harmless", 1);
                    }
                    if let Some((class, msg)) = judge_sst(&pristine, &obs, &probes) {
                        Ctx { rep: &mut rep, seed, shard }.viol("sst", &format!("silent:{region}:{class}"), case_no, ds, region, msg, json!({"open": obs.open, "walk_error": obs.fwd.1}));
                    }
                    if peak > alloc_bound(pristine_peak, bytes.len()) {
                        // bounded by the reader's own size limit (the allocator cap turns anything above
                        // 1 GiB into an exit the driver reports); recorded, not judged
                        rep.count("sst.allocations_far_above_file_size", 1);
                        rep.max("max.sst.single_allocation_on_damaged_file", peak as u64);
                    }
                }
            }
        }
        let _ = std::fs::remove_file(&dpath);
        let _ = std::fs::remove_file(&path);
    }

    // ------------------------------------------------------------------------------------ logs
    for case_no in 0..log_cases {
        if !want("log") || (only_case.is_some() && only_case != Some(case_no)) {
            continue;
        }
        crate::alloc::set_case(1000 + case_no);
        let mut rng = Rng::derive(seed, "c09-log", shard, case_no);
        let Some((bytes, batches, ends)) = build_small_log(&mut rng) else {
            rep.count("log.build_failed", 1);
            continue;
        };
        let all: Vec<Entry> = batches.iter().flatten().cloned().collect();
        crate::alloc::reset_peak();
        let pristine = drain_log(&bytes);
        let pristine_peak = crate::alloc::peak_request();
        if pristine.1.is_some() || pristine.0 != all {
            rep.violation("c09", "log:pristine-file-misread", json!({"case": case_no, "message": format!("the undamaged log does not read back: {:?}", pristine.1)}));
            continue;
        }
        // regions: first frame, middle frames, last frame
        let first_end = ends[0];
        let last_start = if ends.len() >= 2 { ends[ends.len() - 2] } else { 0 };
        let regions: Vec<(&'static str, usize, usize)> = vec![("first-frame", 0, first_end.min(bytes.len())), ("middle-frames", first_end.min(last_start), last_start), ("last-frame", last_start, bytes.len())];
        // every frame's first bytes (header) get every byte value 0 and every bit flip
        let mut list = damages(&mut rng, &bytes, &regions, budget, 0, false);
        let mut starts = vec![0usize];
        starts.extend(ends.iter().take(ends.len() - 1).cloned());
        for s in &starts {
            for d in 0..12 {
                let off = s + d;
                if off >= bytes.len() {
                    continue;
                }
                let region = if *s == last_start { "last-frame" } else if *s == 0 { "first-frame" } else { "middle-frames" };
                for bit in 0..8 {
                    list.push((Damage::Flip { off, bit }, region));
                }
                list.push((Damage::Overwrite { off, byte: 0 }, region));
                list.push((Damage::Overwrite { off, byte: 0xff }, region));
            }
        }
        let singles: Vec<(Damage, &'static str)> = list.iter().filter(|d| !matches!(d.0, Damage::Append { .. })).cloned().collect();
        let mut multi: Vec<(Vec<Damage>, &'static str)> = list.drain(..).map(|(d, r)| (vec![d], r)).collect();
        for _ in 0..pairs {
            multi.push((vec![rng.pick(&singles).0.clone(), rng.pick(&singles).0.clone()], "two-damages"));
        }
        let mut hh = SHash::default();
        hh.u64(seed).u64(shard).u64(case_no).u64(2).bytes(&bytes[..bytes.len().min(256)]);
        rep.nontrivial.insert(hh.get());
        if rep.want_sample() {
            rep.sample(json!({"file": "log", "case": case_no, "bytes": bytes.len(), "batches": batches.len(), "entries": all.len(), "damages": multi.len()}));
        }
        for (ds, region) in &multi {
            let mut b = bytes.clone();
            for d in ds {
                d.apply(&mut b);
            }
            if b == bytes {
                continue;
            }
            rep.evaluations += 1;
            rep.count(&format!("log.damages.{region}"), 1);
            rep.count(&format!("log.damages.kind.{}", ds[0].class()), 1);
            crate::alloc::reset_peak();
            let r = guarded(|| drain_log(&b));
            let peak = crate::alloc::peak_request();
            match r {
                Err(p) => {
                    let site = panic_site(&p);
                    Ctx { rep: &mut rep, seed, shard }.viol("log", &format!("panic:{site}"), case_no, ds, region, format!("reading the damaged log panicked: {p}"), json!({}));
                }
                Ok(got) => {
                    rep.count(if got.1.is_some() { "log.detected" } else if got.0 == all { "log.harmless" } else { "log.clean_but_shorter" }, 1);
                    let mut verdict = judge_seq("log-replay", &pristine, &got);
                    // what a reader cannot tell from a torn tail: a clean end at a batch boundary when
                    // the first damaged byte lies in the batch that is the first one missing, and
                    // everything after it is gone as well (a crash in the middle of that write looks the same)
                    if let Some((class, _)) = &verdict {
                        if class.ends_with("entries-missing-without-error") {
                            let (first_off, pure_truncation) = first_difference(&bytes, &b);
                            let whole: usize = {
                                let mut n = 0;
                                let mut whole = None;
                                for (bi, bt) in batches.iter().enumerate() {
                                    if n == got.0.len() {
                                        whole = Some(bi);
                                        break;
                                    }
                                    n += bt.len();
                                }
                                whole.unwrap_or(usize::MAX)
                            };
                            let torn_like = whole != usize::MAX && {
                                let frame_start = if whole == 0 { 0 } else { ends[whole - 1] };
                                let _ = pure_truncation;
                                // (a) the first missing batch does not fit into what is left of the file;
                                // (b) it is the last batch and nothing before it was touched
                                ends[whole] > b.len() || (first_off >= frame_start && whole == batches.len() - 1)
                            };
                            if torn_like {
                                rep.count("log.loss_indistinguishable_from_a_torn_tail", 1);
                                verdict = None;
                            }
                        }
                    }
                    if let Some((class, msg)) = verdict {
                        Ctx { rep: &mut rep, seed, shard }.viol("log", &format!("silent:{region}:{class}"), case_no, ds, region, msg, json!({"error": got.1}));
                    }
                    if peak > alloc_bound(pristine_peak, bytes.len()) {
                        // bounded by the reader's own size limit (the allocator cap turns anything above
                        // 1 GiB into an exit the driver reports); recorded, not judged
                        rep.count("log.allocations_far_above_file_size", 1);
                        rep.max("max.log.single_allocation_on_damaged_file", peak as u64);
                    }
                }
            }
        }
    }

    // -------------------------------------------------------------------------------- manifests
    for case_no in 0..mani_cases {
        if !want("mani") || (only_case.is_some() && only_case != Some(case_no)) {
            continue;
        }
        crate::alloc::set_case(2000 + case_no);
        let mut rng = Rng::derive(seed, "c09-mani", shard, case_no);
        let dir = scratch.path.join(format!("mani-{case_no}"));
        let _ = std::fs::remove_dir_all(&dir);
        let mut pool: Vec<String> = Vec::new();
        let n = 2 + rng.usize(10);
        let built = guarded(|| -> Result<(), String> {
            let mut m = Manifest::open(mani_options(), &dir).map_err(|e| e.to_string())?;
            for i in 0..n {
                let mut e = Edit::default();
                for _ in 0..rng.usize(4) {
                    let s = if !pool.is_empty() && rng.chance(1, 3) { rng.pick(&pool).clone() } else { format!("{:016x}-{i}", rng.u64()) };
                    if !pool.contains(&s) {
                        pool.push(s.clone());
                    }
                    let _ = e.add(&s);
                }
                if !pool.is_empty() && rng.chance(1, 3) {
                    let _ = e.rm(&rng.pick(&pool).clone());
                }
                if rng.chance(2, 3) {
                    let _ = e.info(*rng.pick(&['I', 'O', 'D', 'L']), &format!("{:08x}", rng.below(1 << 32)));
                }
                m.apply(e).map_err(|e| e.to_string())?;
            }
            Ok(())
        });
        if !matches!(built, Ok(Ok(()))) {
            rep.count("mani.build_failed", 1);
            continue;
        }
        let mpath = mani::MANIFEST(&dir);
        let bytes = std::fs::read(&mpath).unwrap_or_default();
        if bytes.is_empty() {
            continue;
        }
        crate::alloc::reset_peak();
        let pristine = iterate_manifest(&mpath);
        let pristine_peak = crate::alloc::peak_request();
        if pristine.1.is_some() || pristine.0.is_empty() || pristine.0.len() > n {
            rep.violation("c09", "mani:pristine-file-misread", json!({"case": case_no, "message": format!("the undamaged manifest reads {} of {n} edits, error {:?}", pristine.0.len(), pristine.1)}));
            continue;
        }
        // transaction boundaries: offsets just after each separator line
        let mut tx_ends: Vec<usize> = Vec::new();
        {
            let mut off = 0;
            for line in bytes.split_inclusive(|c| *c == b'\n') {
                off += line.len();
                if line == b"--------\n" {
                    tx_ends.push(off);
                }
            }
        }
        let last_start = if tx_ends.len() >= 2 { tx_ends[tx_ends.len() - 2] } else { 0 };
        let regions: Vec<(&'static str, usize, usize)> = vec![("earlier-transactions", 0, last_start), ("last-transaction", last_start, bytes.len())];
        let mut list = damages(&mut rng, &bytes, &regions, budget, 0, false);
        // every bit of every separator line (the only lines without a CRC) and its newline
        for e in &tx_ends {
            let region = if *e > last_start && *e == *tx_ends.last().unwrap() { "last-transaction" } else { "earlier-transactions" };
            for off in e - 9..*e {
                for bit in 0..8 {
                    list.push((Damage::Flip { off, bit }, region));
                }
                list.push((Damage::Overwrite { off, byte: b'-' }, region));
                list.push((Damage::Overwrite { off, byte: b' ' }, region));
            }
        }
        let singles: Vec<(Damage, &'static str)> = list.iter().filter(|d| !matches!(d.0, Damage::Append { .. })).cloned().collect();
        let mut multi: Vec<(Vec<Damage>, &'static str)> = list.drain(..).map(|(d, r)| (vec![d], r)).collect();
        for _ in 0..pairs {
            multi.push((vec![rng.pick(&singles).0.clone(), rng.pick(&singles).0.clone()], "two-damages"));
        }
        let mut hh = SHash::default();
        hh.u64(seed).u64(shard).u64(case_no).u64(3).bytes(&bytes[..bytes.len().min(256)]);
        rep.nontrivial.insert(hh.get());
        if rep.want_sample() {
            rep.sample(json!({"file": "manifest", "case": case_no, "bytes": bytes.len(), "transactions": n, "damages": multi.len()}));
        }
        let ddir = scratch.path.join(format!("mani-{case_no}-damaged"));
        for (ds, region) in &multi {
            let mut b = bytes.clone();
            for d in ds {
                d.apply(&mut b);
            }
            if b == bytes {
                continue;
            }
            let _ = std::fs::remove_dir_all(&ddir);
            if std::fs::create_dir_all(&ddir).is_err() || std::fs::write(mani::MANIFEST(&ddir), &b).is_err() {
                continue;
            }
            rep.evaluations += 1;
            rep.count(&format!("mani.damages.{region}"), 1);
            rep.count(&format!("mani.damages.kind.{}", ds[0].class()), 1);
            crate::alloc::reset_peak();
            let r = guarded(|| {
                let it = iterate_manifest(&mani::MANIFEST(&ddir));
                let st = open_manifest(&ddir);
                (it, st)
            });
            let peak = crate::alloc::peak_request();
            match r {
                Err(p) => {
                    let site = panic_site(&p);
                    Ctx { rep: &mut rep, seed, shard }.viol("mani", &format!("panic:{site}"), case_no, ds, region, format!("reading the damaged manifest panicked: {p}"), json!({}));
                }
                Ok((got, opened)) => {
                    rep.count(if got.1.is_some() { "mani.detected" } else if got.0 == pristine.0 { "mani.harmless" } else { "mani.clean_but_different" }, 1);
                    // iterator: what it yields before an error must be a prefix of the pristine edits
                    let mut verdict: Option<(String, String)> = None;
                    for (i, e) in got.0.iter().enumerate() {
                        match pristine.0.get(i) {
                            Some(p) if p == e => {}
                            Some(_) => {
                                verdict = Some(("iterator:different-transaction-returned".into(), format!("transaction {i} reads {:?}", e)));
                                break;
                            }
                            None => {
                                verdict = Some(("iterator:extra-transaction-returned".into(), format!("transaction {i} = {:?} does not exist in the pristine manifest", e)));
                                break;
                            }
                        }
                    }
                    let (first_off, pure_truncation) = first_difference(&bytes, &b);
                    let first_missing_start = if got.0.is_empty() { 0 } else { tx_ends.get(got.0.len() - 1).copied().unwrap_or(bytes.len()) };
                    let _ = pure_truncation;
                    let first_missing_end = tx_ends.get(got.0.len()).copied().unwrap_or(bytes.len());
                    let torn_like = got.0.len() < pristine.0.len() && (first_missing_end > b.len() || (first_off + 1 >= first_missing_start && got.0.len() + 1 == pristine.0.len()));
                    if verdict.is_none() && got.1.is_none() && got.0.len() < pristine.0.len() {
                        if torn_like {
                            rep.count("mani.loss_indistinguishable_from_a_torn_tail", 1);
                        } else {
                            verdict = Some(("iterator:transactions-missing-without-error".into(), format!("the iterator ends cleanly after {} of {} transactions", got.0.len(), pristine.0.len())));
                        }
                    }
                    // Manifest::open: an Ok state must be the pristine state (or, for torn-tail-like loss, the state of the prefix)
                    if verdict.is_none() {
                        if let Ok(st) = &opened {
                            let full = state_after(&pristine.0);
                            let prefix_ok = torn_like && *st == state_after(&pristine.0[..got.0.len().min(pristine.0.len())]);
                            if *st != full && !prefix_ok {
                                verdict = Some(("open:different-state-recovered".into(), format!("Manifest::open succeeds with {} strings where the pristine manifest has {}", st.0.len(), full.0.len())));
                            }
                        }
                    }
                    if let Some((class, msg)) = verdict {
                        Ctx { rep: &mut rep, seed, shard }.viol("mani", &format!("silent:{region}:{class}"), case_no, ds, region, msg, json!({"iterator_error": got.1, "open": opened.as_ref().err()}));
                    }
                    if peak > alloc_bound(pristine_peak, bytes.len()) {
                        // bounded by the reader's own size limit (the allocator cap turns anything above
                        // 1 GiB into an exit the driver reports); recorded, not judged
                        rep.count("mani.allocations_far_above_file_size", 1);
                        rep.max("max.mani.single_allocation_on_damaged_file", peak as u64);
                    }
                }
            }
        }
        let _ = std::fs::remove_dir_all(&ddir);
        let _ = std::fs::remove_dir_all(&dir);
    }
    // ------------------------------------------------------------------------- whole store
    let store_cases = args.u64("store_cases", 2);
    let store_budget = args.u64("store_budget", 250) as usize;
    for case_no in 0..store_cases {
        if !want("store") || (only_case.is_some() && only_case != Some(case_no)) {
            continue;
        }
        crate::alloc::set_case(3000 + case_no);
        store_case(&mut rep, &scratch, seed, shard, case_no, store_budget);
    }
    rep.finish(args);
}

fn copy_tree(from: &Path, to: &Path) -> std::io::Result<()> {
    std::fs::create_dir_all(to)?;
    for e in std::fs::read_dir(from)? {
        let e = e?;
        let p = e.path();
        let q = to.join(e.file_name());
        if e.file_type()?.is_dir() {
            copy_tree(&p, &q)?;
        } else {
            std::fs::copy(&p, &q)?;
        }
    }
    Ok(())
}

/// Damage one file of a real store directory; open, read everything, scan, verify.
fn store_case(rep: &mut Report, scratch: &Scratch, seed: u64, shard: u64, case_no: u64, budget: usize) {
    use crate::e2::{Step, script};
    use lsmtk::{KeyValueStore, LsmVerifier};
    lsmtk::verif::set_single_step(true);
    let mut rng = Rng::derive(seed, "c09-store", shard, case_no);
    let sc = script(seed ^ 0xC09, shard, case_no, 4 + rng.below(4));
    let base = scratch.path.join(format!("store-{case_no}"));
    let _ = std::fs::remove_dir_all(&base);
    let base_s = base.to_string_lossy().to_string();
    // (log file name, frame start, frame end, the write)
    type Model = BTreeMap<Vec<u8>, Option<Vec<u8>>>;
    type Ops = Vec<(Vec<u8>, Option<Vec<u8>>)>;
    let mut writes: Vec<(String, u64, u64, Ops)> = Vec::new();
    let mut model: Model = BTreeMap::new();
    let active_log = |root: &Path| -> Option<(String, u64, u64)> {
        use std::os::unix::fs::MetadataExt;
        let mut best: Option<(u64, String, u64, u64)> = None;
        for e in std::fs::read_dir(root).ok()?.flatten() {
            let n = e.file_name().to_string_lossy().to_string();
            if let Some(num) = n.strip_prefix("log.").and_then(|x| x.parse::<u64>().ok()) {
                let (len, ino) = e.metadata().map(|m| (m.len(), m.ino())).unwrap_or((0, 0));
                if best.as_ref().map(|b| num > b.0).unwrap_or(true) {
                    best = Some((num, n, len, ino));
                }
            }
        }
        best.map(|b| (b.1, b.2, b.3))
    };
    let mut inode_of: std::collections::HashMap<String, u64> = std::collections::HashMap::new();
    let built = guarded(|| -> Result<(), String> {
        let mut kvs = KeyValueStore::open(sc.cfg.options(&base_s)).map_err(|e| e.to_string())?;
        for step in &sc.steps {
            match step {
                Step::Write(ops) => {
                    if ops.len() == 1 {
                        match &ops[0].1 {
                            Some(v) => kvs.put(&ops[0].0, v),
                            None => kvs.del(&ops[0].0),
                        }
                    } else {
                        let mut wb = lsmtk::WriteBatch::with_capacity(ops.len());
                        for (k, v) in ops {
                            match v {
                                Some(v) => wb.put(k, v),
                                None => wb.del(k),
                            }
                        }
                        kvs.write(wb)
                    }
                    .map_err(|e| e.to_string())?;
                    for (k, v) in ops {
                        model.insert(k.clone(), v.clone());
                    }
                    // which log holds it: the newest log that grew
                    if let Some((name, len, ino)) = active_log(&base) {
                        let mut start = writes.iter().rev().find(|w| w.0 == name).map(|w| w.2).unwrap_or(0);
                        let new_file = inode_of.insert(name.clone(), ino).map(|old| old != ino).unwrap_or(false);
                        if len <= start || new_file {
                            // log numbers recur after a reopen: this is a new file under an old name
                            for w in writes.iter_mut().filter(|w| w.0 == name) {
                                w.0 = format!("{name}#retired");
                            }
                            start = 0;
                        }
                        writes.push((name, start, len, ops.clone()));
                    }
                }
                Step::Flush => {
                    let tree = kvs.verif_tree();
                    let mut guard = 0;
                    while tree.verif_should_stall() && guard < 100 {
                        guard += 1;
                        kvs.compaction_thread().map_err(|e| e.to_string())?;
                    }
                    if !tree.verif_should_stall() && kvs.verif_request_flush() {
                        kvs.memtable_thread().map_err(|e| e.to_string())?;
                    }
                }
                Step::Compact => kvs.compaction_thread().map_err(|e| e.to_string())?,
                Step::Verify => {}
                Step::Reopen => {
                    drop(kvs);
                    kvs = KeyValueStore::open(sc.cfg.options(&base_s)).map_err(|e| e.to_string())?;
                    // stop at a tree with the known recovery defect: later compactions assert on it
                    let mut h = crate::e1::History::attach(&base, sc.cfg.clone(), sc.keys.clone());
                    h.levels_override = Some(kvs.verif_tree().verif_levels());
                    if h.check_structure(true).is_err() {
                        break;
                    }
                }
            }
        }
        drop(kvs);
        Ok(())
    });
    if !matches!(built, Ok(Ok(()))) {
        rep.count("store.build_failed", 1);
        rep.notes.insert(format!("store_build_{case_no}"), json!(format!("{built:?}")));
        return;
    }
    // the files that can be damaged
    let mut files: Vec<(String, &'static str)> = Vec::new();
    for e in std::fs::read_dir(lsmtk::SST_ROOT(&base)).into_iter().flatten().flatten() {
        files.push((format!("sst/{}", e.file_name().to_string_lossy()), "sst"));
    }
    for e in std::fs::read_dir(&base).into_iter().flatten().flatten() {
        let n = e.file_name().to_string_lossy().to_string();
        if n.starts_with("log.") {
            files.push((n, "log"));
        }
    }
    for e in std::fs::read_dir(lsmtk::MANI_ROOT(&base)).into_iter().flatten().flatten() {
        let n = e.file_name().to_string_lossy().to_string();
        if n == "MANIFEST" {
            files.push((format!("mani/{n}"), "manifest"));
        } else if n.starts_with("MANIFEST.") {
            files.push((format!("mani/{n}"), "manifest-fragment"));
        }
    }
    files.sort();
    let mut hh = SHash::default();
    hh.u64(seed).u64(shard).u64(case_no).u64(4).u64(files.len() as u64);
    if files.iter().any(|f| f.1 == "sst") && files.iter().any(|f| f.1 == "log") {
        rep.nontrivial.insert(hh.get());
    }
    if rep.want_sample() {
        rep.sample(json!({"file": "store", "case": case_no, "files": files.iter().map(|f| f.0.clone()).collect::<Vec<_>>(), "writes": writes.len(), "config": sc.cfg.json()}));
    }
    let mut probes = sc.keys.clone();
    probes.push(b"never-written".to_vec());
    let work = scratch.path.join(format!("store-{case_no}-damaged"));
    let work_s = work.to_string_lossy().to_string();
    // the reference is what the undamaged directory answers (the differential oracle of this
    // property); a directory whose own scan and point reads disagree (the known recovery defect
    // builds such trees) cannot serve as a reference for scans
    let _ = std::fs::remove_dir_all(&work);
    let pristine_scan: Option<Vec<(Vec<u8>, Option<Vec<u8>>)>> = if copy_tree(&base, &work).is_ok() {
        let r = guarded(|| -> Result<Vec<(Vec<u8>, Option<Vec<u8>>)>, String> {
            let kvs = KeyValueStore::open(sc.cfg.options(&work_s)).map_err(|e| e.to_string())?;
            let mut loads: Vec<(Vec<u8>, Option<Vec<u8>>)> = Vec::new();
            for k in &probes {
                let mut tomb = false;
                let v = kvs.load(k, &mut tomb).map_err(|e| e.to_string())?;
                if v.is_some() {
                    loads.push((k.clone(), v));
                }
            }
            let (sb, eb): (std::ops::Bound<Vec<u8>>, std::ops::Bound<Vec<u8>>) = (std::ops::Bound::Unbounded, std::ops::Bound::Unbounded);
            let mut c = kvs.range_scan(&sb, &eb).map_err(|e| e.to_string())?;
            c.seek_to_first().map_err(|e| e.to_string())?;
            let mut scan = Vec::new();
            loop {
                c.next().map_err(|e| e.to_string())?;
                match current_real(&c) {
                    Some(e) => scan.push((e.key, e.value)),
                    None => break,
                }
                if scan.len() > 100_000 {
                    return Err("scan does not terminate".into());
                }
            }
            drop(c);
            drop(kvs);
            let scan: Vec<(Vec<u8>, Option<Vec<u8>>)> = scan.into_iter().filter(|(k, _)| probes.contains(k)).collect();
            if scan != loads {
                return Err("the undamaged directory's scan and point reads disagree".into());
            }
            Ok(scan)
        });
        match r {
            Ok(Ok(s)) => Some(s),
            _ => {
                rep.count("store.pristine_directories_not_usable_as_scan_reference", 1);
                None
            }
        }
    } else {
        None
    };
    for i in 0..budget {
        let (rel, kind) = files[i % files.len()].clone();
        let bytes = match std::fs::read(base.join(&rel)) {
            Ok(b) if !b.is_empty() => b,
            _ => continue,
        };
        let off = rng.usize(bytes.len());
        let d = match rng.below(12) {
            0..=4 => Damage::Flip { off, bit: rng.below(8) as u8 },
            5 => Damage::Overwrite { off, byte: 0 },
            6 => Damage::Overwrite { off, byte: 0xff },
            7 => Damage::Zero { off, len: 1 + rng.usize(100) },
            8 | 9 => Damage::Truncate { len: off },
            10 => Damage::Truncate { len: bytes.len() - 1 - rng.usize(bytes.len().min(40)) },
            _ => Damage::Append { bytes: rng.bytes(1 + off % 50) },
        };
        let mut b = bytes.clone();
        d.apply(&mut b);
        if b == bytes {
            continue;
        }
        let _ = std::fs::remove_dir_all(&work);
        if copy_tree(&base, &work).is_err() || std::fs::write(work.join(&rel), &b).is_err() {
            continue;
        }
        rep.evaluations += 1;
        rep.count(&format!("store.damages.{kind}"), 1);
        let (first_diff, pure_trunc) = first_difference(&bytes, &b);
        let _ = pure_trunc;
        let part = if kind == "sst" { format!(":{}", sst_part(&bytes, first_diff.min(bytes.len() - 1))) } else { String::new() };
        crate::alloc::reset_peak();
        let r = guarded(|| -> Result<(Model, Vec<(Vec<u8>, Option<Vec<u8>>)>), String> {
            let kvs = KeyValueStore::open(sc.cfg.options(&work_s)).map_err(|e| format!("open: {e}"))?;
            let mut got: Model = BTreeMap::new();
            for k in &probes {
                let mut tomb = false;
                let v = kvs.load(k, &mut tomb).map_err(|e| format!("load: {e}"))?;
                got.insert(k.clone(), v);
            }
            let (sb, eb): (std::ops::Bound<Vec<u8>>, std::ops::Bound<Vec<u8>>) = (std::ops::Bound::Unbounded, std::ops::Bound::Unbounded);
            let mut c = kvs.range_scan(&sb, &eb).map_err(|e| format!("scan: {e}"))?;
            c.seek_to_first().map_err(|e| format!("scan: {e}"))?;
            let mut scan = Vec::new();
            loop {
                c.next().map_err(|e| format!("scan: {e}"))?;
                match current_real(&c) {
                    Some(e) => scan.push((e.key, e.value)),
                    None => break,
                }
                if scan.len() > 100_000 {
                    return Err("scan does not terminate".into());
                }
            }
            drop(c);
            drop(kvs);
            Ok((got, scan))
        });
        let peak = crate::alloc::peak_request();
        let replay = format!("vh c09 seed={seed} shard={shard} only=store store_cases={} case={case_no}", case_no + 1);
        match r {
            Err(p) => {
                rep.violation("c09", &format!("store:{kind}:panic:{}", panic_site(&p)), json!({"file": rel, "damage": d.show(), "message": format!("opening / reading the store panicked: {p}"), "replay": replay}));
            }
            Ok(Err(_)) => rep.count("store.detected", 1),
            Ok(Ok((got, scan))) => {
                let view = |m: &Model, k: &Vec<u8>| m.get(k).cloned().unwrap_or(None);
                let same = |m: &Model| probes.iter().all(|k| view(m, k) == view(&got, k));
                let mut ok = same(&model);
                if !ok && kind == "log" {
                    // torn-tail-like loss in the damaged log
                    for (wi, w) in writes.iter().enumerate() {
                        if w.0 != rel {
                            continue;
                        }
                        let last_of_log = !writes[wi + 1..].iter().any(|x| x.0 == rel);
                        let lost_from_here = w.2 as usize > b.len() || (last_of_log && first_diff as u64 >= w.1);
                        if lost_from_here {
                            // everything this log held from here on is gone; other logs and the SSTs are intact
                            let mut before: Model = BTreeMap::new();
                            for (xi, x) in writes.iter().enumerate() {
                                if x.0 == rel && xi >= wi {
                                    continue;
                                }
                                for (k, v) in &x.3 {
                                    before.insert(k.clone(), v.clone());
                                }
                            }
                            if same(&before) {
                                ok = true;
                                rep.count("store.loss_indistinguishable_from_a_torn_tail", 1);
                            }
                            break;
                        }
                    }
                }
                if !ok && kind == "manifest" && (pure_trunc || first_diff + 200 >= bytes.len()) {
                    // the last manifest transaction(s) torn away: the store is an earlier committed state
                    rep.count("store.manifest_tail_loss_not_judged", 1);
                    ok = true;
                }
                if !ok && std::env::var("VH_TRACE_LEVELS").is_ok() {
                    eprintln!("damage {} to {rel}; files {:?}", d.show(), files);
                    for w in &writes {
                        eprintln!("  write in {} [{}..{}] {:?}", w.0, w.1, w.2, w.3.iter().map(|(k, v)| format!("{}={}", show(k), v.as_ref().map(|v| show(&v[..v.len().min(8)])).unwrap_or("x".into()))).collect::<Vec<_>>());
                    }
                }
                if !ok {
                    let diffs: Vec<String> = probes.iter().filter(|k| view(&model, k) != view(&got, k)).take(4).map(|k| format!("{}: pristine {:?}, damaged store reads {:?}", show(k), view(&model, k).map(|v| show(&v[..v.len().min(10)])), view(&got, k).map(|v| show(&v[..v.len().min(10)])))).collect();
                    rep.violation("c09", &format!("store:{kind}:silent{part}:different-contents"), json!({"file": rel, "damage": d.show(), "message": format!("the store opens and reads without error but differs: {}", diffs.join("; ")), "replay": replay}));
                } else {
                    rep.count("store.harmless", 1);
                    let live: Vec<(Vec<u8>, Option<Vec<u8>>)> = got.iter().filter(|(_, v)| v.is_some()).map(|(k, v)| (k.clone(), v.clone())).collect();
                    let scan_live: Vec<(Vec<u8>, Option<Vec<u8>>)> = scan.into_iter().filter(|(k, _)| probes.contains(k)).collect();
                    if pristine_scan.is_some() && live != scan_live {
                        rep.violation("c09", &format!("store:{kind}:silent{part}:scan-disagrees-with-loads"), json!({"file": rel, "damage": d.show(), "message": format!("a full scan and the point reads of the damaged store disagree: loads {:?} scan {:?}", live.iter().map(|(k, v)| format!("{}={}", show(k), show(&v.as_ref().unwrap()[..v.as_ref().unwrap().len().min(8)]))).collect::<Vec<_>>(), scan_live.iter().map(|(k, v)| format!("{}={}", show(k), v.as_ref().map(|v| show(&v[..v.len().min(8)])).unwrap_or("x".into()))).collect::<Vec<_>>()), "replay": replay}));
                    }
                }
            }
        }
        if peak > (64 << 20) + 8 * bytes.len() {
            rep.count("store.allocations_far_above_file_size", 1);
            rep.max("max.store.single_allocation_on_damaged_file", peak as u64);
        }
        // the offline verifier on the damaged directory: any verdict, but no panic
        if i % 4 == 0 {
            let r = guarded(|| LsmVerifier::open(sc.cfg.options(&work_s)).and_then(|mut v| v.verify()).is_ok());
            if let Err(p) = r {
                rep.violation("c09", &format!("store:{kind}:verifier-panic:{}", panic_site(&p)), json!({"file": rel, "damage": d.show(), "message": format!("LsmVerifier panicked on the damaged directory: {p}"), "replay": replay}));
            } else {
                rep.count("store.verifier_runs", 1);
            }
        }
    }
    let _ = std::fs::remove_dir_all(&work);
    let _ = std::fs::remove_dir_all(&base);
}

fn rng_usize_small(rng: &mut Rng) -> usize {
    match rng.below(4) {
        0 => rng.usize(4),
        1 => 10 + rng.usize(40),
        _ => 40 + rng.usize(200),
    }
}

/// Debug helper: print the regions of an SST file.
pub fn run_regions(args: &Args) {
    let path = args.str("path", "");
    let bytes = std::fs::read(&path).unwrap_or_default();
    println!("{} bytes, regions (index s,l, filter s,l, final) {:?}", bytes.len(), sst_regions(&bytes));
}
