//! C19 — the compressed text index answers every query as the uncompressed text would.
//!
//! Oracle: a naive scan written here (the arbiter), plus the repository's ReferenceDocument as a
//! second opinion.  Bit vectors are compared with a Vec<bool>.

use buffertk::Unpackable;
use scrunch::bit_vector::BitVector;
use scrunch::builder::Builder;
use scrunch::{CompressedDocument, Document, RecordOffset, ReferenceDocument, TextOffset};
use serde_json::json;

use crate::util::*;

///////////////////////////////////////////// naive scan ///////////////////////////////////////////

fn naive_search(text: &[u32], needle: &[u32]) -> Vec<usize> {
    if needle.is_empty() {
        return (0..text.len()).collect();
    }
    if needle.len() > text.len() {
        return vec![];
    }
    (0..=text.len() - needle.len())
        .filter(|i| &text[*i..*i + needle.len()] == needle)
        .collect()
}

fn naive_lookup(bounds: &[usize], offset: usize) -> usize {
    // record r with bounds[r] <= offset < bounds[r+1]
    bounds.partition_point(|b| *b <= offset) - 1
}

fn naive_retrieve<'a>(text: &'a [u32], bounds: &[usize], r: usize) -> &'a [u32] {
    let start = bounds[r];
    let end = if r + 1 < bounds.len() { bounds[r + 1] } else { text.len() };
    &text[start..end]
}

////////////////////////////////////////////// texts ///////////////////////////////////////////////

fn alphabet(rng: &mut Rng, size: usize) -> Vec<u32> {
    let style = rng.below(5);
    let mut a: Vec<u32> = Vec::with_capacity(size);
    let mut next: u32 = match style {
        0 => 1,
        1 => b'a' as u32,
        2 => 0,
        3 => 0x10000,
        _ => 1 + rng.below(1000) as u32,
    };
    for _ in 0..size {
        a.push(next);
        next = next.wrapping_add(match style {
            3 => 1 + rng.below(5000) as u32,
            4 => 1 + rng.below(3) as u32,
            _ => 1,
        });
    }
    if rng.chance(1, 6) && size > 1 {
        // large code points
        let n = a.len();
        a[n - 1] = *rng.pick(&[0x10ffffu32, 0x7fffffff, u32::MAX - 1, u32::MAX]);
    }
    a.sort();
    a.dedup();
    a
}

fn gen_text(rng: &mut Rng, max_len: usize, force_deep: bool) -> (Vec<u32>, String) {
    let style = if force_deep { 8 } else { rng.below(13) };
    let len = match rng.below(8) {
        0 => 1,
        1 => 2,
        2 => 3 + rng.usize(6),
        3..=5 => 10 + rng.usize(max_len.min(300)),
        _ => 10 + rng.usize(max_len),
    };
    match style {
        0 => (vec![1 + rng.below(300) as u32; 1], "single-symbol".into()),
        1 => {
            let s = 1 + rng.below(70000) as u32;
            (vec![s; len], "all-equal".into())
        }
        2 | 3 => {
            let p = 1 + rng.usize(8);
            let a = alphabet(rng, p.max(2));
            let unit: Vec<u32> = (0..p).map(|_| *rng.pick(&a)).collect();
            ((0..len).map(|i| unit[i % p]).collect(), format!("periodic-{p}"))
        }
        4 => {
            // de Bruijn-like: all k-mers over a small alphabet via the prefer-largest greedy walk
            let k = 2 + rng.usize(3);
            let sigma = 2 + rng.usize(3);
            let mut seen = std::collections::HashSet::new();
            let mut t: Vec<u32> = vec![1; k];
            seen.insert(t.clone());
            loop {
                let mut extended = false;
                for s in (1..=sigma as u32).rev() {
                    let mut w: Vec<u32> = t[t.len() - (k - 1)..].to_vec();
                    w.push(s);
                    if !seen.contains(&w) {
                        seen.insert(w);
                        t.push(s);
                        extended = true;
                        break;
                    }
                }
                if !extended || t.len() > max_len {
                    break;
                }
            }
            (t, format!("debruijn-k{k}-s{sigma}"))
        }
        5 => {
            // Fibonacci string
            let (mut a, mut b) = (vec![1u32], vec![1u32, 2]);
            while b.len() < len {
                let mut c = b.clone();
                c.extend_from_slice(&a);
                a = b;
                b = c;
            }
            b.truncate(len.max(2));
            (b, "fibonacci".into())
        }
        6 => {
            // large alphabet: up to thousands of distinct symbols
            let size = *rng.pick(&[255usize, 256, 257, 1000, 4096]);
            let a = alphabet(rng, size);
            let mut t: Vec<u32> = a.clone();
            for _ in 0..rng.usize(200) {
                t.push(*rng.pick(&a));
            }
            rng.shuffle(&mut t);
            (t, format!("alphabet-{}", a.len()))
        }
        7 => {
            // skewed frequencies (deep Huffman trees)
            let size = 12 + rng.usize(20);
            let a = alphabet(rng, size);
            let mut t = Vec::new();
            let mut f = 1usize;
            let mut g = 1usize;
            for s in &a {
                for _ in 0..f.min(max_len / 4 + 1) {
                    t.push(*s);
                }
                let n = f + g;
                g = f;
                f = n;
                if t.len() > max_len {
                    break;
                }
            }
            rng.shuffle(&mut t);
            (t, "fibonacci-frequencies".into())
        }
        8 => {
            // one context preceded by K symbols with Fibonacci frequencies: the per-context code
            // tree is K-1 levels deep (the worst case for the Huffman-shaped wavelet trees)
            let mut weights = vec![1usize, 1];
            while weights.iter().sum::<usize>() * 3 <= max_len && weights.len() < 40 {
                let n = weights.len();
                weights.push(weights[n - 1] + weights[n - 2]);
            }
            weights.pop();
            let drop = if force_deep { 0 } else { rng.usize(3) };
            for _ in 0..drop {
                if weights.len() > 3 {
                    weights.pop();
                }
            }
            let k = weights.len();
            let mut order: Vec<u32> = Vec::new();
            for (i, w) in weights.iter().enumerate() {
                for _ in 0..*w {
                    order.push(100 + i as u32);
                }
            }
            rng.shuffle(&mut order);
            let tail: Vec<u32> = if rng.chance(1, 2) { vec![1, 2] } else { vec![1] };
            let mut t = Vec::with_capacity(order.len() * (1 + tail.len()));
            for s in order {
                t.push(s);
                t.extend_from_slice(&tail);
            }
            (t, format!("deep-context-k{k}"))
        }
        _ => {
            let size = *rng.pick(&[1usize, 2, 2, 3, 4, 8, 26, 64, 300]);
            let a = alphabet(rng, size);
            ((0..len).map(|_| *rng.pick(&a)).collect(), format!("random-sigma{}", a.len()))
        }
    }
}

fn gen_bounds(rng: &mut Rng, n: usize) -> (Vec<usize>, &'static str) {
    match rng.below(6) {
        0 => (vec![0], "one-record"),
        1 => ((0..n).collect(), "one-symbol-per-record"),
        2 => {
            let mut b = vec![0usize];
            if n > 1 {
                b.push(n - 1);
            }
            (b, "boundary-at-end")
        }
        3 => {
            let mut b = vec![0usize];
            if n > 1 {
                b.push(1);
            }
            (b, "boundary-at-1")
        }
        _ => {
            let mut b = vec![0usize];
            let k = 1 + rng.usize(n.min(40));
            for _ in 0..k {
                b.push(rng.usize(n));
            }
            b.sort();
            b.dedup();
            (b, "random")
        }
    }
}

fn fail(sig: &str, msg: String) -> Result<(), (String, String)> {
    Err((sig.to_string(), msg))
}

fn doc_case(rng: &mut Rng, rep: &mut Report, max_len: usize, force_deep: bool) -> (u64, bool, serde_json::Value, Result<(), (String, String)>) {
    let (text, tstyle) = gen_text(rng, max_len, force_deep);
    let (mut bounds, bstyle) = gen_bounds(rng, text.len());
    // invalid divisions (empty records, boundary == len, not starting at 0) in a minority of cases
    let invalid = rng.chance(1, 12);
    if invalid {
        match rng.below(4) {
            0 => bounds.push(text.len()),
            1 => {
                let d = bounds[bounds.len() - 1];
                bounds.push(d);
            }
            2 => bounds = vec![],
            _ => bounds[0] = 1,
        }
    }
    let mut h = SHash::default();
    for s in &text {
        h.u64(*s as u64);
    }
    for b in &bounds {
        h.u64(*b as u64);
    }
    let distinct: std::collections::BTreeSet<u32> = text.iter().copied().collect();
    let desc = json!({"text_style": tstyle, "len": text.len(), "alphabet": distinct.len(),
        "records": bounds.len(), "record_style": bstyle, "invalid_division": invalid,
        "text_head": text.iter().take(24).collect::<Vec<_>>()});
    let mut nontrivial = false;
    let search_cap = if text.len() > 200_000 { 3000 } else { usize::MAX };
    let r = guarded(|| -> Result<(), (String, String)> {
        let mut rbuf = vec![];
        let mut cbuf = vec![];
        let rres = {
            let mut b = Builder::new(&mut rbuf);
            ReferenceDocument::construct(text.clone(), bounds.clone(), &mut b)
        };
        let cres = {
            let mut b = Builder::new(&mut cbuf);
            CompressedDocument::construct(text.clone(), bounds.clone(), &mut b)
        };
        if invalid {
            rep.count("docs.invalid_division", 1);
            if cres.is_ok() != rres.is_ok() {
                return fail("construct:accepts-differently", format!("invalid division {bounds:?}: reference {rres:?}, compressed {cres:?}"));
            }
            return Ok(());
        }
        if let Err(e) = cres {
            return fail(&format!("construct:rejects-valid-text:{e:?}"), format!("compressed construct failed with {e:?} (reference: {rres:?}) on a {}-symbol text over {} symbols", text.len(), distinct.len()));
        }
        let (doc, rest) = match CompressedDocument::unpack(&cbuf) {
            Ok(x) => x,
            Err(e) => return fail("parse:error", format!("re-parsing the serialised index failed: {e:?}")),
        };
        if !rest.is_empty() {
            return fail("parse:trailing", format!("{} bytes left after parsing", rest.len()));
        }
        let refdoc = ReferenceDocument::unpack(&rbuf).map(|x| x.0).ok();
        if doc.len() != text.len() {
            return fail("len", format!("len {} != {}", doc.len(), text.len()));
        }
        if doc.records() != bounds.len() {
            return fail("records", format!("records {} != {}", doc.records(), bounds.len()));
        }
        // patterns: all substrings up to length L (capped), longer sampled, absent, cross-boundary
        let mut needles: Vec<Vec<u32>> = vec![];
        let max_l = if text.len() <= 64 { 6 } else { 3 };
        let mut seen = std::collections::HashSet::new();
        'outer: for l in 1..=max_l {
            for i in 0..text.len().saturating_sub(l - 1) {
                let w = text[i..i + l].to_vec();
                if seen.insert(w.clone()) {
                    needles.push(w);
                    if needles.len() > 600 {
                        break 'outer;
                    }
                }
            }
        }
        for _ in 0..20 {
            let i = rng.usize(text.len());
            let l = 1 + rng.usize((text.len() - i).min(40));
            needles.push(text[i..i + l].to_vec());
        }
        needles.push(text.clone());
        // the rarest symbols, alone and with their successors
        let mut freq: std::collections::HashMap<u32, (usize, usize)> = std::collections::HashMap::new();
        for (i, s) in text.iter().enumerate() {
            let e = freq.entry(*s).or_insert((0, i));
            e.0 += 1;
        }
        let mut rare: Vec<(usize, u32, usize)> = freq.iter().map(|(s, (n, first))| (*n, *s, *first)).collect();
        rare.sort();
        for (_, s, first) in rare.iter().take(40) {
            needles.push(vec![*s]);
            for l in 2..=4 {
                if first + l <= text.len() {
                    needles.push(text[*first..first + l].to_vec());
                }
            }
        }
        for b in bounds.iter().skip(1).take(200) {
            // crossing a record boundary
            let s = b.saturating_sub(2);
            let e = (*b + 2).min(text.len());
            needles.push(text[s..e].to_vec());
        }
        for _ in 0..10 {
            // absent or nearly-present patterns
            let i = rng.usize(text.len());
            let l = 1 + rng.usize((text.len() - i).min(6));
            let mut w = text[i..i + l].to_vec();
            let j = rng.usize(w.len());
            w[j] = w[j].wrapping_add(1 + rng.below(3) as u32);
            needles.push(w);
        }
        needles.push(vec![u32::MAX]);
        needles.push(vec![0]);
        let mut t2 = text.clone();
        t2.push(text[0]);
        needles.push(t2); // longer than the text
        let mut multi = false;
        for n in &needles {
            let want = naive_search(&text, n);
            if want.len() >= 2 {
                multi = true;
            }
            match doc.count(n) {
                Ok(c) if c == want.len() => {}
                other => return fail("count", format!("count({n:?}) = {other:?}, naive scan says {}", want.len())),
            }
            if want.len() > search_cap {
                rep.count("patterns.count_only", 1);
                continue;
            }
            match doc.search(n) {
                Ok(it) => {
                    let mut got: Vec<usize> = it.map(|o| o.0).collect();
                    got.sort();
                    if got != want {
                        return fail("search", format!("search({n:?}) = {got:?}, naive scan says {want:?}"));
                    }
                }
                Err(e) => return fail("search", format!("search({n:?}) failed: {e:?}")),
            }
            rep.count("patterns", 1);
        }
        // the empty needle: defined by the reference document
        if let Some(rd) = &refdoc {
            let a = doc.count(&[]).ok();
            let b = rd.count(&[]).ok();
            if a != b {
                rep.count("observations.empty_needle_differs_from_reference", 1);
            }
        }
        // lookup of every offset (capped), retrieve / offset_of every record
        let step = (text.len() / 400).max(1);
        for off in (0..text.len()).step_by(step).chain(bounds.iter().copied()).chain(bounds.iter().map(|b| b.saturating_sub(1))) {
            let want = naive_lookup(&bounds, off);
            match doc.lookup(TextOffset(off)) {
                Ok(r) if r.0 == want => {}
                other => return fail("lookup", format!("lookup({off}) = {other:?}, naive says record {want}")),
            }
            rep.count("lookups", 1);
        }
        let rstep = (bounds.len() / 200).max(1);
        for r in (0..bounds.len()).step_by(rstep).chain([bounds.len() - 1]) {
            let want = naive_retrieve(&text, &bounds, r);
            match doc.retrieve(RecordOffset(r)) {
                Ok(v) if v == want => {}
                other => return fail("retrieve", format!("retrieve({r}) = {:?}, want {:?}", other.map(|v| v.iter().take(12).copied().collect::<Vec<_>>()), want.iter().take(12).collect::<Vec<_>>())),
            }
            match doc.offset_of(RecordOffset(r)) {
                Ok(o) if o.0 == bounds[r] => {}
                other => return fail("offset_of", format!("offset_of({r}) = {other:?}, want {}", bounds[r])),
            }
            rep.count("records_retrieved", 1);
        }
        // out-of-range queries: no panic (results unspecified)
        let _ = doc.lookup(TextOffset(text.len()));
        let _ = doc.lookup(TextOffset(text.len() + 7));
        let _ = doc.retrieve(RecordOffset(bounds.len()));
        let _ = doc.offset_of(RecordOffset(bounds.len() + 3));
        // the reference document must agree with the naive scan as well
        if let Some(rd) = &refdoc {
            for n in needles.iter().take(40) {
                let want = naive_search(&text, n);
                let got: Vec<usize> = rd.search(n).map(|it| it.map(|o| o.0).collect()).unwrap_or_default();
                if got != want {
                    return fail("reference-document", format!("ReferenceDocument::search({n:?}) = {got:?} vs naive {want:?}"));
                }
            }
        }
        // parsing the same bytes again gives the same answers (sample)
        let (doc2, _) = CompressedDocument::unpack(&cbuf).map_err(|e| ("parse:error".to_string(), format!("{e:?}")))?;
        for n in needles.iter().take(25) {
            if doc2.count(n).ok() != doc.count(n).ok() {
                return fail("parse:unstable", format!("second parse answers count({n:?}) differently"));
            }
        }
        nontrivial = (multi || bounds.len() >= 2) && text.len() >= 2;
        rep.count("docs", 1);
        rep.count("doc_symbols", text.len() as u64);
        rep.count("index_bytes", cbuf.len() as u64);
        rep.max("max.alphabet", distinct.len() as u64);
        rep.max("max.text_len", text.len() as u64);
        Ok(())
    });
    let r = match r {
        Ok(r) => r,
        Err(p) => Err((format!("panic:{}", panic_site(&p)), format!("panic: {p}"))),
    };
    (h.get(), nontrivial, desc, r)
}

//////////////////////////////////////////// bit vectors ///////////////////////////////////////////

fn gen_bits(rng: &mut Rng, max_len: usize) -> (Vec<bool>, String) {
    let len = match rng.below(10) {
        0 => 0,
        1 => 1,
        // word (63 bits) and block (23 words = 1449 bits) boundaries of the compressed vectors
        2 => *rng.pick(&[62usize, 63, 64, 65, 126, 127, 128, 129, 4095, 4096, 4097, 315, 1448, 1449, 1450, 2898, 11592]),
        3..=6 => rng.usize(600),
        _ => rng.usize(max_len),
    };
    let style = rng.below(8);
    let bits: Vec<bool> = match style {
        0 => vec![false; len],
        1 => vec![true; len],
        2 => (0..len).map(|i| i % 2 == 0).collect(),
        3 => {
            let block = *rng.pick(&[63usize, 64, 15, 16, 256]);
            (0..len).map(|i| (i / block) % 2 == 0).collect()
        }
        4 => {
            // sparse
            let mut v = vec![false; len];
            for _ in 0..(len / 100 + rng.usize(4)) {
                if len > 0 {
                    let i = rng.usize(len);
                    v[i] = true;
                }
            }
            v
        }
        5 => {
            // dense with holes
            let mut v = vec![true; len];
            for _ in 0..(len / 100 + rng.usize(4)) {
                if len > 0 {
                    let i = rng.usize(len);
                    v[i] = false;
                }
            }
            v
        }
        _ => {
            let d = 1 + rng.below(99);
            (0..len).map(|_| rng.below(100) < d).collect()
        }
    };
    (bits, format!("style{style}-len{len}"))
}

fn check_bv<B: BitVector>(name: &str, bits: &[bool], rep: &mut Report) -> Result<(), (String, String)>
where
    for<'a> B::Output<'a>: BitVector,
{
    let mut buf = vec![];
    {
        let mut b = Builder::new(&mut buf);
        if let Err(e) = B::construct(bits, &mut b) {
            return fail(&format!("bitvector:{name}:construct"), format!("construct failed: {e:?} on {} bits", bits.len()));
        }
    }
    let (bv, _rest) = match B::parse(&buf) {
        Ok(x) => x,
        Err(e) => return fail(&format!("bitvector:{name}:parse"), format!("parse failed: {e:?} on {} bits", bits.len())),
    };
    if bv.len() != bits.len() {
        return fail(&format!("bitvector:{name}:len"), format!("len {} != {}", bv.len(), bits.len()));
    }
    let mut ranks = Vec::with_capacity(bits.len() + 1);
    let mut r = 0usize;
    for b in bits {
        ranks.push(r);
        if *b {
            r += 1;
        }
    }
    ranks.push(r);
    let ones = r;
    let step = (bits.len() / 3000).max(1);
    let mut i = 0;
    while i <= bits.len() {
        if i < bits.len() {
            if bv.access(i) != Some(bits[i]) {
                return fail(&format!("bitvector:{name}:access"), format!("access({i}) = {:?}, want {} ({} bits)", bv.access(i), bits[i], bits.len()));
            }
            if bv.access_rank(i) != Some((bits[i], ranks[i])) {
                return fail(&format!("bitvector:{name}:access_rank"), format!("access_rank({i}) = {:?}, want ({}, {})", bv.access_rank(i), bits[i], ranks[i]));
            }
        }
        if bv.rank(i) != Some(ranks[i]) {
            return fail(&format!("bitvector:{name}:rank"), format!("rank({i}) = {:?}, want {} ({} bits)", bv.rank(i), ranks[i], bits.len()));
        }
        if bv.rank0(i) != Some(i - ranks[i]) {
            return fail(&format!("bitvector:{name}:rank0"), format!("rank0({i}) = {:?}, want {}", bv.rank0(i), i - ranks[i]));
        }
        i += if i + step > bits.len() && i < bits.len() { bits.len() - i } else { step };
    }
    // select(k): the smallest index i with rank(i) == k (the relation the trait documents)
    let kstep = (ones / 1500).max(1);
    let mut k = 0;
    while k <= ones + 1 {
        let want = ranks.iter().position(|r| *r == k);
        if bv.select(k) != want {
            return fail(&format!("bitvector:{name}:select"), format!("select({k}) = {:?}, want {want:?} ({} bits, {ones} ones)", bv.select(k), bits.len()));
        }
        k += kstep;
    }
    let zeros = bits.len() - ones;
    let zstep = (zeros / 1500).max(1);
    let mut k = 0;
    while k <= zeros + 1 {
        let want = (0..=bits.len()).position(|i| i - ranks[i] == k);
        if bv.select0(k) != want {
            return fail(&format!("bitvector:{name}:select0"), format!("select0({k}) = {:?}, want {want:?}", bv.select0(k)));
        }
        k += zstep;
    }
    // out of range: None, not a panic
    if bv.access(bits.len()).is_some() {
        return fail(&format!("bitvector:{name}:access"), "access(len) is Some".into());
    }
    let _ = bv.rank(bits.len() + 1);
    let _ = bv.select(ones + 2);
    rep.count(&format!("bitvectors.{name}"), 1);
    Ok(())
}

fn bv_case(rng: &mut Rng, rep: &mut Report, max_len: usize) -> (u64, bool, serde_json::Value, Result<(), (String, String)>) {
    let (bits, style) = gen_bits(rng, max_len);
    let mut h = SHash::default();
    h.u64(bits.len() as u64);
    let mut acc = 0u64;
    for (i, b) in bits.iter().enumerate() {
        acc = (acc << 1) | *b as u64;
        if i % 64 == 63 {
            h.u64(acc);
        }
    }
    h.u64(acc);
    let desc = json!({"bitvector": style, "ones": bits.iter().filter(|b| **b).count()});
    let r = guarded(|| -> Result<(), (String, String)> {
        check_bv::<scrunch::bit_vector::ReferenceBitVector>("reference", &bits, rep)?;
        check_bv::<scrunch::bit_vector::rrr::BitVector>("rrr", &bits, rep)?;
        check_bv::<scrunch::bit_vector::cf_rrr::BitVector>("cf_rrr", &bits, rep)?;
        check_bv::<scrunch::bit_vector::sparse::BitVector>("sparse", &bits, rep)?;
        rep.count("bitvector_bits", bits.len() as u64);
        Ok(())
    });
    let r = match r {
        Ok(r) => r,
        Err(p) => Err((format!("panic:{}", panic_site(&p)), format!("panic: {p}"))),
    };
    (h.get(), bits.len() >= 2, desc, r)
}

pub fn run(args: &Args) {
    let mut rep = Report::new("c19", args);
    rep.max_samples = 4;
    let cases = args.u64("cases", 200);
    let max_len = args.u64("max_len", 2000) as usize;
    let max_bits = args.u64("max_bits", 50000) as usize;
    let force_deep = args.flag("deep");
    let (seed, shard) = (rep.seed, rep.shard);
    let only = args.opt("case").map(|c| c.parse::<u64>().unwrap());
    for case_no in 0..cases {
        if let Some(o) = only {
            if o != case_no {
                continue;
            }
        }
        let mut rng = Rng::derive(seed, "c19", shard, case_no);
        let (h, nontrivial, desc, res) = if case_no % 3 == 2 && !force_deep {
            bv_case(&mut rng, &mut rep, max_bits)
        } else {
            doc_case(&mut rng, &mut rep, max_len, force_deep)
        };
        rep.evaluations += 1;
        if nontrivial {
            rep.nontrivial.insert(h);
            if case_no % 37 < 4 {
                rep.sample(desc.clone());
            }
        }
        if let Err((sig, msg)) = res {
            rep.violation("c19", &sig, json!({"case": desc, "message": msg.chars().take(1500).collect::<String>(),
                "replay": format!("vh c19 seed={seed} shard={shard} cases={} max_len={max_len} max_bits={max_bits} case={case_no}", case_no + 1)}));
        }
    }
    rep.finish(args);
}
