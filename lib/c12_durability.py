"""C12 clause 3: each concurrent append returns only after its batch is durable.

Runs `vh c12conc` under the system-call shim in TRACE mode.  The harness stamps every append's
return with the shim's logical clock; this checker locates each batch's byte range in the final
file and demands a successful fdatasync on that file that BEGAN after every write covering the
range had ENDED and that ENDED before the append returned."""
import json
import os
import shutil
import struct
import subprocess


def parse_trace(path):
    begins = {}
    calls = []  # dict per call
    for line in open(path, errors="replace"):
        f = line.rstrip("\n").split(" ")
        if f[0] == "B":
            ev, seq, tid, call, ino, size_before, ln = int(f[1]), int(f[2]), int(f[3]), f[4], int(f[5]), int(f[6]), int(f[7])
            c = {"b": ev, "seq": seq, "tid": tid, "call": call, "ino": ino, "size_before": size_before,
                 "len": ln, "p1": f[8] if len(f) > 8 else "-", "p2": f[9] if len(f) > 9 else "-",
                 "e": None, "ret": None}
            begins[seq] = c
            calls.append(c)
        elif f[0] == "E":
            ev, seq, ret, err = int(f[1]), int(f[2]), int(f[3]), int(f[4])
            c = begins.get(seq)
            if c is not None:
                c["e"] = ev
                c["ret"] = ret
                c["errno"] = err
    return calls


def runner(prop, job, shard, seed, tier, outdir, env):
    from checks import Inconclusive
    out = os.path.join(outdir, f"{job['name']}-{shard}.json")
    trace = os.path.join(outdir, f"{job['name']}-{shard}.trace")
    events = os.path.join(outdir, f"{job['name']}-{shard}.events")
    scratch_base = os.path.join(env["VH_VERIF"], "out", "scratch")
    os.makedirs(scratch_base, exist_ok=True)
    for f in (out, trace, events):
        if os.path.exists(f):
            os.remove(f)
    e = dict(env)
    shim = os.path.join(env["VH_VERIF"], "shim", "vshim.so")
    e.update({"LD_PRELOAD": shim, "VSHIM_ROOT": scratch_base, "VSHIM_TRACE": trace, "VH_SCRATCH": scratch_base})
    argv = [env["VH_BIN"], "c12conc", f"seed={seed}", f"shard={shard}", f"out={out}", f"events={events}"]
    for k, v in job.get("args", {}).items():
        argv.append(f"{k}={v}")
    p = subprocess.run(argv, env=e, stdout=subprocess.PIPE, stderr=subprocess.STDOUT, text=True,
                       timeout=job.get("timeout", 900))
    if not os.path.exists(out):
        raise Inconclusive(f"c12conc shard {shard}: no report (exit {p.returncode}): {p.stdout[-500:]}")
    rep = json.load(open(out))
    hp = out + ".hashes"
    b = open(hp, "rb").read() if os.path.exists(hp) else b""
    rep["_hashes"] = set(struct.unpack(f"<{len(b)//8}Q", b))
    if os.path.exists(hp):
        os.remove(hp)
    rep["_argv"] = argv
    scratch = rep.get("notes", {}).get("scratch")
    try:
        calls = parse_trace(trace)
        writes = {}
        syncs = {}
        for c in calls:
            if c["call"] in ("write", "writev", "pwrite") and c["ret"] is not None and c["ret"] > 0:
                writes.setdefault(c["ino"], []).append(c)
            if c["call"] in ("fdatasync", "fsync") and c["ret"] == 0:
                syncs.setdefault(c["ino"], []).append(c)
        checked = 0
        nosync = 0
        files = {}
        for line in open(events):
            f = line.rstrip("\n").split("\t")
            if len(f) < 6:
                continue
            path, bid, stamp = f[0], int(f[1]), int(f[2])
            first_key, last_key, last_len = bytes.fromhex(f[3]), bytes.fromhex(f[4]), int(f[5])
            if stamp < 0:
                raise Inconclusive("shim not loaded: append returns carry no clock stamp")
            if path not in files:
                data = open(path, "rb").read()
                files[path] = (data, os.stat(path).st_ino)
            data, ino = files[path]
            lo = data.find(first_key)
            hi = data.find(last_key)
            if lo < 0 or hi < 0:
                continue  # the harness's file-content oracle reports this
            hi = hi + len(last_key) + last_len
            ws = [w for w in writes.get(ino, []) if w["size_before"] < hi and w["size_before"] + w["ret"] > lo]
            if not ws:
                raise Inconclusive(f"no traced write covers bytes [{lo},{hi}) of {path}: the shim missed a call")
            w_end = max(w["e"] for w in ws)
            ok = any(s["b"] > w_end and s["e"] is not None and s["e"] <= stamp for s in syncs.get(ino, []))
            checked += 1
            if not ok:
                nosync += 1
                if len(rep["violations"]) < 5:
                    rep["violations"].append({"kind": "c12", "signature": "conc:returned-before-durable",
                                              "detail": {"file": path, "batch": bid, "bytes": [lo, hi],
                                                         "covering_writes_end_at_clock": w_end, "return_clock": stamp,
                                                         "syncs_on_file": [(s["b"], s["e"]) for s in syncs.get(ino, [])][-8:],
                                                         "message": "append returned but no successful fdatasync began after its write ended and ended before the return",
                                                         "replay": " ".join(argv)}})
        rep["violations_total"] = rep.get("violations_total", 0) + nosync
        rep["counters"]["durability.appends_checked"] = checked
        nsync = sum(len(v) for v in syncs.values())
        rep["counters"]["durability.fdatasync_calls"] = nsync
        rep["counters"]["durability.write_calls"] = sum(len(v) for v in writes.values())
        if checked and nsync < checked:
            rep["counters"]["durability.runs_with_coalesced_fsync"] = 1
            rep["_hashes"].add(hash((shard, seed, checked, nsync)) & 0xFFFFFFFFFFFFFFFF)
    finally:
        if scratch and os.path.isdir(scratch) and scratch.startswith(scratch_base):
            shutil.rmtree(scratch, ignore_errors=True)
        for f in (trace, events):
            if os.path.exists(f):
                os.remove(f)
    return rep
