#!/usr/bin/env python3
import json, glob, re
rows=[]
for f in sorted(glob.glob('/verif/evidence/thorough/*.json')):
    d=json.load(open(f)); c=d['coverage']
    jobs=", ".join(f"{j['name']}[{j['flavour']}]" for j in c.get('jobs',[]))
    rows.append(f"| {d['property_id']} | {c['evaluations']:,} | {c['distinct_nontrivial']:,} | {c.get('verdict')} | {len(c.get('known_findings_observed',{}))} | {int(d.get('wall_s',0))} s | {jobs} |")
t="| property | evaluations | distinct non-trivial | verdict | known findings seen | wall | jobs [flavour] |\n|---|---|---|---|---|---|---|\n"+"\n".join(rows)
p='/verif/DESIGN.md'
s=open(p).read()
s=re.sub(r"<!-- THOROUGH-TABLE -->(.*?<!-- /THOROUGH-TABLE -->)?", "<!-- THOROUGH-TABLE -->\n"+t.replace("\\","\\\\")+"\n<!-- /THOROUGH-TABLE -->", s, count=1, flags=re.S)
open(p,'w').write(s)
print(len(rows))
