#!/usr/bin/env python3
"""Regenerate /verif/MANIFEST.json from lib/checks.py (run after changing the registry)."""
import json
import os
import subprocess
import sys

sys.dont_write_bytecode = True
VERIF = os.path.dirname(os.path.dirname(os.path.abspath(__file__)))
sys.path.insert(0, os.path.join(VERIF, "lib"))
import checks  # noqa: E402

props = [json.loads(l) for l in open(os.path.join(VERIF, "properties.jsonl"))]
baseline = json.load(open("/root/.vp/BASELINE.json"))

hook_commits = []
try:
    out = subprocess.run(["git", "-C", "/repo", "log", "--format=%H %s"], capture_output=True, text=True).stdout
    for line in out.splitlines():
        h, s = line.split(" ", 1)
        if s.startswith("verif-hook:"):
            hook_commits.append(h)
except Exception:
    pass

m = {
    "version": 1,
    "setup_cmd": "cd /verif && ./check build plain",
    "hooks": {
        "guard": "--cfg rescrv_blue_verif",
        "enable": "RUSTFLAGS=\"--cfg rescrv_blue_verif\" (set by ./check for every build of /verif/harness, which depends on /repo's crates by path)",
        "baseline_off_cmd": "cd /repo && cargo test --workspace --no-fail-fast --offline",
        "source_commits": list(reversed(hook_commits)),
        "add_only": True,
    },
    "engines": checks.ENGINES,
    "checks": [],
    "not_applicable": [],
    "notes": checks.NOTES,
}
for p in props:
    pid = p["id"]
    if pid in checks.REGISTRY:
        spec = checks.REGISTRY[pid]
        m["checks"].append({
            "property_id": pid,
            "quick_cmd": f"./check {pid} --tier quick",
            "thorough_cmd": f"./check {pid} --tier thorough",
            "evidence_file": f"/verif/evidence/{pid}.json",
            "replay_cmd_template": "./check replay {path}",
            "engine": spec.get("engine", "vh"),
            "level_claimed": {
                "category": spec["level"],
                "text": spec["level_text"],
                "design_ref": spec.get("design_ref", f"DESIGN.md section 3 ({pid})"),
            },
            "level_note": spec["level_note"],
            "technique": spec["technique"],
        })
    else:
        m["not_applicable"].append({
            "property_id": pid,
            "reason": checks.NOT_CLAIMED.get(pid, "check not built yet in this round; no claim is made"),
        })
json.dump(m, open(os.path.join(VERIF, "MANIFEST.json"), "w"), indent=1)
print("wrote MANIFEST.json:", len(m["checks"]), "checks,", len(m["not_applicable"]), "not claimed")
