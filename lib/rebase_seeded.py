#!/usr/bin/env python3
"""Re-base every kept seeded patch on /repo's current HEAD: apply (3-way if needed), take `git diff`,
write it back, undo.  Never run while a check is running (checks rebuild from /repo)."""
import json, os, subprocess
def sh(c): return subprocess.run(c, shell=True, capture_output=True, text=True)
assert sh("git -C /repo status --porcelain").stdout.strip() == "", "repo not clean"
head = sh("git -C /repo rev-parse --short HEAD").stdout.strip()
for name in sorted(os.listdir("/verif/seeded")):
    d = f"/verif/seeded/{name}"
    r = sh(f"git -C /repo apply {d}/patch.diff")
    if r.returncode != 0:
        r = sh(f"git -C /repo apply --3way {d}/patch.diff")
    sh("git -C /repo reset -q")
    diff = sh("git -C /repo diff").stdout
    sh("git -C /repo checkout -- .")
    if r.returncode != 0 or "<<<<<<<" in diff or not diff.strip():
        print(name, "NEEDS A MANUAL PORT on", head); continue
    open(f"{d}/patch.diff", "w").write(diff)
    m = json.load(open(f"{d}/meta.json")); m["patch_rebased_on_repo_head"] = head
    json.dump(m, open(f"{d}/meta.json", "w"), indent=1)
    print(name, "ok")
