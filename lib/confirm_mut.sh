#!/bin/bash
# usage: lib/confirm_mut.sh <name> <patch.diff> <demo_src> <demo_dst_rel> "<demo cargo args>" "<test crates: -p a -p b>"
# Confirms in a scratch worktree (outside /repo and /verif) that a seeded change
#  (1) applies and compiles, (2) passes the existing tests of the given crates,
#  (3) its demonstration passes on the unchanged tree and fails with the change.
# Writes a summary to stdout (JSON on the last line).
set -u
NAME=$1; PATCH=$(readlink -f "$2"); DEMO=$(readlink -f "$3"); DST=$4; DEMOARGS=$5; CRATES=$6
WT=${CONFIRM_WT:-/tmp/wt/confirm}
export CARGO_NET_OFFLINE=true
export CARGO_TARGET_DIR=${CONFIRM_WT:-/tmp/wt/confirm}-target
git -C /repo worktree remove --force $WT >/dev/null 2>&1
git -C /repo worktree add -q --detach $WT HEAD || exit 3
cp /repo/Cargo.lock $WT/
cd $WT
mkdir -p "$(dirname $DST)"; cp "$DEMO" "$DST"
# demo on unchanged tree
timeout 1500 cargo test --offline -j 8 $DEMOARGS > $WT/_demo_clean.log 2>&1; DEMO_CLEAN=$?
# apply
git apply --3way "$PATCH" >/dev/null 2>&1 || git apply "$PATCH" || { echo '{"name":"'$NAME'","error":"patch does not apply"}'; cd /; git -C /repo worktree remove --force $WT; exit 3; }
timeout 1500 cargo test --offline -j 8 $DEMOARGS > $WT/_demo_mut.log 2>&1; DEMO_MUT=$?
rm -f "$DST"
# existing tests with the change
timeout 3000 cargo test --offline -j 8 $CRATES > $WT/_tests_mut.log 2>&1; TESTS_MUT=$?
PASSED=$(grep -E "^test result" $WT/_tests_mut.log | awk '{p+=$4; f+=$6} END {print p+0 "," f+0}')
WARN=$(grep -c "^warning: unused\|^error" $WT/_tests_mut.log)
echo "--- demo with change (tail):"; grep -E "panicked|assert|FAILED|test result" $WT/_demo_mut.log | head -8
echo '{"name":"'$NAME'","demo_clean_exit":'$DEMO_CLEAN',"demo_mut_exit":'$DEMO_MUT',"tests_mut_exit":'$TESTS_MUT',"tests_passed_failed":"'$PASSED'","compile_warnings":'$WARN',"demo_cmd":"cargo test --offline '"$DEMOARGS"'","tests_cmd":"cargo test --offline '"$CRATES"'"}'
cd /; git -C /repo worktree remove --force $WT
