#!/bin/bash
# usage: lib/sweep.sh <tier> <seed>...  — run every registered check at the given seeds; summary lines to stdout
TIER=$1; shift
cd /verif
IDS=$(python3 -c "import sys; sys.path.insert(0,'lib'); import checks; print(' '.join(sorted(checks.REGISTRY)))")
for seed in "$@"; do
  for id in $IDS; do
    out=$(./check $id --tier $TIER --seed $seed 2>&1); rc=$?
    echo "seed=$seed $id rc=$rc $(echo "$out" | grep -E "^$id tier" | sed 's/.*: //') $(echo "$out" | grep -cE '^KNOWN-FINDING') known $(echo "$out" | grep -E '^(INCONCLUSIVE|VIOLATION)|violation class' | head -3 | tr '\n' ' ' | cut -c1-300)"
  done
done
