#!/usr/bin/env python3
"""Take one sub-agent's output (<wt>/_out/{patch.diff,demo_*.rs,notes.md}), confirm it in a scratch
worktree with lib/confirm_mut.sh, and only if confirmed keep it as /verif/seeded/<ID>-<m>/ with a
meta.json; then run lib/matrix.py on it.
usage: lib/addseeded.py <ID> <m> <wt> <demo crate> "<title>" "<needs>" "<-p crates for existing tests>" """
import json, os, shutil, subprocess, sys, glob
idd, m, wt, crate, title, needs, crates = sys.argv[1:8]
name = f"{idd}-{m}"
out = os.path.join(wt, "_out")
patch = os.path.join(out, "patch.diff")
demo = glob.glob(os.path.join(out, "demo_*.rs"))[0]
stem = os.path.basename(demo)[:-3]
os.makedirs("/tmp/wt", exist_ok=True)
r = subprocess.run(["/verif/lib/confirm_mut.sh", name, patch, demo, f"{crate}/tests/{stem}.rs",
                    f"-p {crate} --test {stem}", crates], capture_output=True, text=True)
print(r.stdout[-1500:], r.stderr[-500:])
conf = json.loads(r.stdout.strip().split("\n")[-1])
ok = conf.get("demo_clean_exit") == 0 and conf.get("demo_mut_exit") not in (0, None) and conf.get("tests_mut_exit") == 0 and conf.get("compile_warnings") == 0
if not ok:
    print(name, "NOT CONFIRMED", conf); sys.exit(1)
dst = f"/verif/seeded/{name}"
os.makedirs(dst, exist_ok=True)
shutil.copy(patch, dst); shutil.copy(demo, dst)
if os.path.isfile(os.path.join(out, "notes.md")):
    shutil.copy(os.path.join(out, "notes.md"), dst)
files = [l[6:].strip() for l in open(patch) if l.startswith("+++ b/")]
head = subprocess.run("git -C /repo rev-parse --short HEAD", shell=True, capture_output=True, text=True).stdout.strip()
meta = {
    "property": idd, "id": name, "title": title, "needs_to_manifest": needs, "files_touched": files,
    "patch_rebased_on_repo_head": head,
    "confirmed_in_scratch_worktree": {
        "compiles_without_new_warnings": True,
        "existing_tests": {"cmd": conf["tests_cmd"], "exit": conf["tests_mut_exit"], "passed_failed": conf["tests_passed_failed"]},
        "demonstration": {"file": [os.path.basename(demo)], "cmd": conf["demo_cmd"], "exit_on_unchanged_tree": conf["demo_clean_exit"],
                          "exit_with_change": conf["demo_mut_exit"], "placed_as": "the demo file is copied to <crate>/tests/ of the crate named in cmd"},
    },
    "apply": f"git -C /repo apply /verif/seeded/{name}/patch.diff   # undo: git -C /repo checkout -- .",
}
json.dump(meta, open(f"{dst}/meta.json", "w"), indent=1)
print(name, "confirmed and kept")
