#!/usr/bin/env python3
"""Fill the seeded-change table of DESIGN.md §8.4 from seeded/*/meta.json."""
import json, os, re
rows = []
for name in sorted(os.listdir("/verif/seeded")):
    m = json.load(open(f"/verif/seeded/{name}/meta.json"))
    title = re.sub(r"^C\d\d\s*/\s*\S+\s*[—-]+\s*", "", m.get("title", "")).strip()
    title = re.sub(r"^\(.*?\)\s*[—-]+\s*", "", title)
    for key, c in sorted(m.get("checks", {}).items()):
        classes = "; ".join(re.sub(r" x\d+$", "", x.split(" / ", 1)[1]) for x in c.get("violation_classes", [])[:2])
        rows.append(f"| {name} | {title[:110]} | {', '.join(m['files_touched'])} | `./check {key.replace(':', ' --tier ')}` | {'caught' if c.get('caught') else 'MISSED'} | {classes[:150]} |")
table = "| id | change | file | check | verdict | violation classes (first two) |\n|---|---|---|---|---|---|\n" + "\n".join(rows)
caught = sum(1 for r in rows if "| caught |" in r)
table += f"\n\n{caught} of {len(rows)} runs report a VIOLATION (quick tier, seed 1).  Every one of these checks is silent (or prints only KNOWN-FINDING lines) on the unchanged tree.\n"
p = "/verif/DESIGN.md"
s = open(p).read()
s = re.sub(r"<!-- MUTANT-TABLE -->(.*?<!-- /MUTANT-TABLE -->)?", "<!-- MUTANT-TABLE -->\n" + table.replace("\\", "\\\\") + "\n<!-- /MUTANT-TABLE -->", s, count=1, flags=re.S)
open(p, "w").write(s)
print(caught, "of", len(rows))
