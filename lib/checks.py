"""Registry of checks: per property the jobs per tier, coverage floors, evidence texts."""


class Inconclusive(Exception):
    pass


def q(tier, quick, thorough):
    return thorough if tier == "thorough" else quick


REGISTRY = {}
NOT_CLAIMED = {}
NOTES = ("All checks are runtime monitors over executions of the real code: ./check <ID> builds "
         "/verif/harness (path-dependent on /repo's working tree, hooks on), runs sharded workloads, "
         "merges the monitors' reports, applies known_findings.json and writes evidence/<ID>.json. "
         "Exit 2 = inconclusive (never a verdict).")
ENGINES = [
    {"name": "vh", "path": "/verif/harness", "serves_properties": [],
     "kind_free_text": "Rust harness: workload generators, reference models and online/offline monitors"},
    {"name": "check", "path": "/verif/check", "serves_properties": [],
     "kind_free_text": "Python driver: builds flavours (plain/release/asan/tsan/miri), shards, merges, known-findings, evidence"},
]


def job(name, cmd, flavour="plain", shards=16, timeout=900, **args):
    return {"name": name, "cmd": cmd, "flavour": flavour, "shards": shards, "timeout": timeout,
            "args": args}


ASAN_ENV = {"ASAN_OPTIONS": "detect_leaks=0:abort_on_error=1:halt_on_error=1:allocator_may_return_null=1"}
TSAN_ENV = {"TSAN_OPTIONS": "halt_on_error=1 exitcode=66 second_deadlock_stack=1"}


import miri_runner  # noqa: E402


def miri_job(name, workloads, programs, schedules, shards=16, timeout=3300):
    j = job(name, "miri", flavour="miri", shards=shards, timeout=timeout, workloads=workloads, programs=programs,
            schedules=schedules)
    j["runner"] = miri_runner.runner
    return j


def san_job(name, cmd, flavour, shards=16, timeout=3000, **args):
    j = job(name, cmd, flavour=flavour, shards=shards, timeout=timeout, **args)
    j["env"] = dict(ASAN_ENV if flavour == "asan" else TSAN_ENV)
    return j


# ------------------------------------------------------------------------------------------- C10
REGISTRY["C10"] = {
    "level": "exploration",
    "technique": "differential runtime monitor: real Block/Sst cursors vs Vec reference after every call on generated tables and cursor programs",
    "level_text": ("Exploration: tens of thousands (quick) to millions (thorough) of generated tables and cursor "
                   "programs, each call compared with an independent reference; says nothing about inputs not "
                   "generated."),
    "level_note": "Trusted: the Vec reference cursor, sst::Setsum framing (tied to the definition by C14), the generators' reach.",
    "rule": ("Each case = one generated strictly-ordered entry sequence (adversarial key pool: empty "
             "key, prefixes, last-byte neighbours, 0xff runs, 16 KiB keys / 32 KiB values; 1-40 "
             "versions per key; tombstone runs), interleaved with inputs the builder must reject, "
             "fed to the real BlockBuilder or SstBuilder under random restart/block options, then "
             "1-3 random cursor programs, full forward/backward walks, timestamped loads and "
             "metadata compared with a Vec-backed reference after every call. Non-trivial = table "
             "has >=2 restarts or >=2 data blocks AND a program contains a reversal or a seek; "
             "distinct = structural hash of (kind, options, entries, programs)."),
    "assumptions": ["sst::Setsum entry framing is tied to the published definition by C14",
                    "oracle is a sorted Vec with two sentinels (harness/src/gen.rs RefCursor)"],
    "jobs": lambda tier: [
        job("tables", "c10", shards=16, cases=q(tier, 1500, 40000), prog=40),
    ] + ([job("tables-release", "c10", flavour="release", shards=16, cases=40000, prog=60)]
         if tier == "thorough" else []),
    "floors": lambda tier: {"distinct_nontrivial": 1000, "tables_multi_block": 100,
                            "rejected_attempts.out_of_order": 100, "metadata_checks": 100},
}

# ------------------------------------------------------------------------------------------- C11
REGISTRY["C11"] = {
    "level": "exploration",
    "technique": "differential runtime monitor: real merging/concat/bounds/pruning/lazy cursors vs vectors computed from their definitions, compared after every call of generated cursor programs",
    "level_text": ("Exploration: generated families of child tables and cursor programs; every call's position is "
                   "compared with the definitional vector. Silent on input families not generated."),
    "level_note": "Trusted: VecCursor (harness), the definitions coded in c11.rs (sorted union, concatenation, interval restriction, newest<=t non-tombstone), RefCursor sentinel semantics.",
    "rule": ("Each case = one combinator (merge / concat / bounds / prune / lazy / the store's "
             "Bounds(Prune(Merge)) stack) over generated multi-version entries distributed over 1-7 "
             "children (empty children, tombstone-only children, one key's versions split across "
             "adjacent children), random bounds (incl. empty and inverted) and read timestamps, and "
             "two 40-call programs of seek_to_first/seek_to_last/seek/next/prev. Non-trivial = >=2 "
             "children (or >=2 entries for unary combinators), a tombstone or a shared key present, "
             "and a reversal or seek in a program; distinct = structural hash of the case."),
    "assumptions": ["identical (key,timestamp) in two children is not generated: its order is undefined"],
    "jobs": lambda tier: [
        job("combinators", "c11", shards=16, cases=q(tier, 4000, 150000), prog=40),
    ] + ([job("combinators-release", "c11", flavour="release", shards=16, cases=150000, prog=60)]
         if tier == "thorough" else []),
    "floors": lambda tier: {"distinct_nontrivial": 3000, "nontrivial.merge": 300, "nontrivial.concat": 300,
                            "nontrivial.bounds": 300, "nontrivial.prune": 300, "nontrivial.lazy": 300,
                            "nontrivial.stack": 300, "nontrivial.prune_keep": 300, "nontrivial.store_stack": 300,
                            "bounds.empty_or_inverted": 50},
}

# ------------------------------------------------------------------------------------------- C14
import c14_reference  # noqa: E402


def _c14_ref_job(tier):
    j = job("reference", "c14ref", shards=16, timeout=900, cases=q(tier, 3000, 60000),
            mine_ms=q(tier, 2500, 120000))
    j["runner"] = c14_reference.runner
    return j


REGISTRY["C14"] = {
    "level": "exploration",
    "technique": "differential runtime monitor: setsum digests of generated multisets recomputed by an independent Python reference (hashlib.sha3_256 + integer arithmetic); algebraic-law monitor over boundary values",
    "level_text": ("Exploration: generated multisets (empty/repeated/vectored items, items whose SHA3 words are >= the "
                   "column prime) recomputed from the published definition; laws checked on columns at 0,1,p-1 and "
                   "on digests in p..2^32-1 fed through from_digest."),
    "level_note": "Trusted: Python hashlib SHA3-256 and the reference in lib/c14_reference.py; non-canonical inputs are compared modulo the primes.",
    "rule": ("laws job: one case = one law instance over generated items/values (order independence, "
             "union=sum, remove/sub inverse, vectored split at every position, digest round trips, "
             "sst::Setsum put/del/insert framing); reference job: one case = one multiset / key-value "
             "list / signed sum whose digest the real code computed and the Python reference "
             "recomputes. Non-trivial = contains an empty, repeated, vectored or boundary-word item or "
             "a boundary column; distinct = structural hash of the inputs."),
    "assumptions": ["comparisons involving digests with columns >= the prime are made modulo the primes"],
    "jobs": lambda tier: [
        job("laws", "c14", shards=16, cases=q(tier, 20000, 1000000)),
        _c14_ref_job(tier),
    ] + ([job("laws-release", "c14", flavour="release", shards=16, cases=1000000)] if tier == "thorough" else []),
    "floors": lambda tier: {"distinct_nontrivial": 10000, "law.addsub_noncanonical_inputs": 1000,
                            "reference.cases_recomputed": 10000,
                            "reference.cases_touching_boundary_word": 500},
}

# ------------------------------------------------------------------------------------------- C16
REGISTRY["C16"] = {
    "level": "exploration",
    "technique": "runtime oracle over generated tuple pairs: Ord of encodings vs element-wise Ord of tuples, prefix-extension ordering, decode round trip; hostile-bytes decoder monitor (no panic)",
    "level_text": ("Exploration: pairs generated to agree on a prefix and differ at a width/sign/escape boundary, "
                   "both formats, both directions, derived TypedTupleKey; decoders run on random and mutated bytes."),
    "level_note": "Trusted: Rust's Ord on integers/strings/bytes as the tuple order; the generators' boundary classes.",
    "rule": ("pair case = schema of 1-4 elements over {unit,u32,u64,i32,i64,string(,bytes)} x {asc,desc}, tuple a, "
             "tuple b that copies a prefix of a and then takes a neighbouring value (+-1, sign flip, bit flip, "
             "string prefix/extension with NUL / 0xff / max code points), extension x; checks cmp(enc a, enc b) = "
             "cmp(a,b), enc(a) < enc(a+x) < enc(b) when a<b, decode(enc)=tuple. hostile case = random bytes / "
             "truncation / bit flip / insertion / runs of continuation bytes fed to every decoder. Non-trivial = "
             "pair shares a non-empty prefix and differs later (or is a 1-tuple), or hostile input; distinct = hash of the case."),
    "assumptions": [],
    "jobs": lambda tier: [
        job("pairs", "c16", shards=16, cases=q(tier, 60000, 3000000)),
    ] + ([job("pairs-release", "c16", flavour="release", shards=16, cases=3000000)] if tier == "thorough" else []),
    "floors": lambda tier: {"distinct_nontrivial": 100000, "pairs.tuple_key": 100000, "pairs.tuple_key2": 100000,
                            "pairs.derived": 30000, "hostile_inputs": 30000,
                            "pairs.common_prefix_then_boundary": 50000},
}

# ------------------------------------------------------------------------------------------- C15
REGISTRY["C15"] = {
    "level": "exploration",
    "technique": "differential runtime monitor: derived message family packed by the real codec vs an independent wire encoder/decoder written from the protobuf spec; round-trip, unknown-field injection, hostile-bytes decoder monitor with allocation cap; fast/slow/reference varint agreement",
    "level_text": ("Exploration: generated values of a message family covering every field type and container with "
                   "boundary integers and special floats; hostile byte strings (random, truncated, bit-flipped, "
                   "over-long/non-canonical varints, huge lengths, group wire types, trailing bytes)."),
    "level_note": "Trusted: the wire reference in harness/src/c15.rs (wire module), written from the protobuf encoding documentation; the counting allocator.",
    "rule": ("value case = one generated value of Scalars (21 fields: every scalar/bytesN/string type, field numbers "
             "at 1-byte/2-byte/max tag boundaries), Containers (Option/Vec of scalars, strings, bytes, messages, "
             "one-of enums with payloads), Choice or Result; checks pack_sz, bytes vs reference encoder (fallback: "
             "per-field records via independent decoder), unpack==value, unknown fields of 4 wire types at every "
             "record boundary. hostile case = one mutated/random byte string through every decoder. varint case = "
             "one 1..10-byte varint through exact-buffer (slow) and padded (fast) decoders and the reference. "
             "All cases count as non-trivial (each is boundary-directed); distinct = structural hash."),
    "assumptions": ["conventions observed and then fixed in the reference: fields in declaration order, repeated fields unpacked, None absent, defaults emitted; if bytes differ the per-field records must still agree"],
    "jobs": lambda tier: [
        job("codec", "c15", shards=16, cases=q(tier, 25000, 1500000)),
    ] + ([job("codec-release", "c15", flavour="release", shards=16, cases=1500000)] if tier == "thorough" else []),
    "floors": lambda tier: {"distinct_nontrivial": 100000, "values.scalars": 10000, "values.containers": 10000,
                            "hostile_inputs": 100000, "unknown_field_injections": 100000, "varints.len10": 1000,
                            "varints.len1": 1000},
}

# ------------------------------------------------------------------------------------------- C19
REGISTRY["C19"] = {
    "level": "exploration",
    "technique": "differential runtime monitor: CompressedDocument (serialised, re-parsed) vs a naive scan of the original text on generated texts/record divisions/patterns; every BitVector implementation vs a Vec<bool>",
    "level_text": ("Exploration: generated texts (single-symbol, all-equal, periodic 1..8, de Bruijn-like, Fibonacci, "
                   "skewed frequencies, alphabets of 1..4096 incl. 255/256/257 and code points up to u32::MAX) with "
                   "record boundaries at every position class; all substrings up to length 6 (short texts) or 3, "
                   "sampled longer, absent and boundary-crossing patterns; bit vectors up to 50 000 bits."),
    "level_note": "Trusted: the naive scan in harness/src/c19.rs; select(k) is taken as the smallest index with rank == k (the relation the BitVector trait documents).",
    "rule": ("doc case = one text + record division: construct, serialise, parse, then len/records/count/search for "
             "every pattern of the set above, lookup of (sampled) every offset, retrieve/offset_of of every record, "
             "second parse stability; a minority of cases use invalid divisions (empty record, boundary at len, "
             "no records) where compressed and reference construct must agree on acceptance. bitvector case = one "
             "bit pattern through Reference/rrr/cf_rrr/sparse: access, rank, rank0, access_rank at every (sampled) "
             "index, select/select0 at every (sampled) rank. Non-trivial = text of >=2 symbols with a pattern "
             "occurring >=2 times or >=2 records; bit vector of >=2 bits. distinct = hash of text+boundaries / bits."),
    "assumptions": ["out-of-range lookups/retrieves are unspecified: only 'no panic' is required"],
    "jobs": lambda tier: [
        job("index", "c19", shards=16, timeout=2700, cases=q(tier, 120, 500), max_len=q(tier, 2000, 40000),
            max_bits=50000),
        # one context with a >=25-level code tree needs ~1M symbols: release build, few cases
        job("deep-context", "c19", flavour="release", shards=q(tier, 2, 16), timeout=1800, cases=q(tier, 1, 3),
            max_len=q(tier, 1000000, 1600000), deep=1),
    ] + ([job("index-release", "c19", flavour="release", shards=16, timeout=3000, cases=500, max_len=30000,
              max_bits=50000),
          san_job("index-asan", "c19", "asan", cases=200, max_len=3000, max_bits=20000),
          miri_job("miri", "text", programs=64, schedules=1)] if tier == "thorough" else []),
    "floors": lambda tier: {"distinct_nontrivial": 500, "docs": 500, "patterns": 100000, "bitvectors.rrr": 300,
                            "docs.invalid_division": 20},
}

# ------------------------------------------------------------------------------------------- C12
import c12_durability  # noqa: E402


def _c12_dur_job(tier):
    j = job("conc-durability", "c12conc", shards=q(tier, 8, 16), timeout=1200, runs=q(tier, 4, 40))
    j["runner"] = c12_durability.runner
    j["needs_shim"] = True
    return j


REGISTRY["C12"] = {
    "level": "exploration",
    "technique": "runtime monitors: reader output vs appended batches on generated size patterns and at swept truncation lengths; offline checker over intercepted write/fdatasync events and append return stamps for concurrent appenders",
    "level_text": ("Exploration: batch sizes aimed at 0..23 bytes before (and a few bytes past) the 1 MiB boundaries, "
                   "windows of truncation lengths around every frame start/end, split point and boundary; 2-16 "
                   "threads appending under a system-call shim that gives a global logical clock."),
    "level_note": "Trusted: LD_PRELOAD shim (every write/fdatasync on the log file is seen; checked by requiring a traced write for every batch), Cursor-backed reader, harness frame-size arithmetic (self-checked by the on-target counter).",
    "rule": ("format case = one log of 1-100 batches (1 byte .. ~1 MiB, sized to end d in 0..23 bytes before a block "
             "boundary or just past it), read back whole and at every cut in windows around all marks plus sampled "
             "cuts; reader must yield exactly the whole batches before the cut, then end or error. conc case = one "
             "run of N threads x M appends: file has each batch once, whole, contiguous, in real-time order; every "
             "append's return is preceded by an fdatasync that began after its write ended. Non-trivial = log with "
             ">=1 split/padded batch; run with coalesced appends or fsyncs. distinct = hash of batch end offsets / run."),
    "assumptions": ["a complete batch before the cut must be returned (the title's 'loses only the tail')"],
    "jobs": lambda tier: [
        job("format", "c12", shards=16, timeout=2700, cases=q(tier, 6, 40), cuts=q(tier, 400, 1500)),
        _c12_dur_job(tier),
    ],
    "floors": lambda tier: {"distinct_nontrivial": 40, "batches.split_across_boundary": 50,
                            "batches.sized_for_boundary": 50, "truncations.inside_a_frame": 5000,
                            "durability.appends_checked": 3000},
}

# ------------------------------------------------------------------------------------------- C13
def _c13_job(tier):
    j = job("manifest", "c13", shards=16, timeout=1500, cases=q(tier, 150, 4000), trunc_cases=q(tier, 2, 20),
            crash_cases=q(tier, 2, 25), crash_points=q(tier, 60, 100000))
    j["needs_shim"] = True
    return j


REGISTRY["C13"] = {
    "level": "fault_enumeration",
    "technique": "runtime monitors: Manifest state vs a BTreeSet/BTreeMap model over generated edit sequences and reopen points; fragment-chain checker; swept truncation lengths; crash-point sweep of a deterministic child under the system-call shim (persistence models a and b); cross-process lock probe",
    "level_text": ("Fault enumeration: every truncation length of MANIFEST for the swept cases; every (quick: up to 60 "
                   "spread) crash point among the watched calls of apply/rollover histories, under both persistence "
                   "models, each image reopened and compared with the prefix states; plus exploration of edit sequences."),
    "level_note": "Trusted: LD_PRELOAD shim sees every mutating call of the child (cross-checked by a non-zero call count and exit code 77 at the chosen point); the child history is deterministic (same seed => same call sequence).",
    "rule": ("sequence case = 3-28 edits (adds/removes/info, empty edits, add+remove of one string, re-adds; hostile "
             "strings: empty, spaces, +/- and separator look-alikes, CR, non-ASCII, NUL, 1.5 KB) with rollover ratio "
             "in {1,2,8} and random clean reopen points: in-memory and reopened state == model, fragments chain, "
             "Manifest::verify silent. truncation case = every cut of MANIFEST: reopen gives a prefix state or an "
             "explicit corruption error. crash case = child killed before watched call n (models a,b): reopen gives "
             "state[acked] or state[acked+1] (if an edit was in flight) or a corruption error; recovered manifest "
             "accepts another edit. Non-trivial = sequence with >=1 rollover; sweep with cuts inside a line / crash "
             "points inside an edit. distinct = hash of the sequence."),
    "assumptions": ["an edit the API rejects is simply not applied to the model", "directory-entry durability is outside the two persistence models"],
    "exhaustive": lambda tier, counters: False,
    "jobs": lambda tier: [_c13_job(tier)],
    "floors": lambda tier: {"distinct_nontrivial": 500, "rollovers": 1000, "truncations.inside_a_line": 3000,
                            "crash.points": 1000, "crash.points_model_b": 500, "lock_probes": 8},
}

# ------------------------------------------------------------------------------------------- C18
REGISTRY["C18"] = {
    "level": "exploration",
    "technique": "runtime monitors over recorded histories: coalescing-queue calls (invoke/return stamps, outputs) vs the core's observed batches; deadlock predicate from /proc thread states; wait-list and LRU programs vs sequential models",
    "level_text": ("Exploration: 2-15 threads x 50-450 calls per queue run with accept-all / limit-k / refuse-all cores of "
                   "varying work time; sampled schedules only. Wait-list programs of link / unlink-in-any-order / "
                   "notify / store / swap with invariants after every step, plus a run with all 65 536 slots linked. "
                   "LRU programs over all five operations with arbitrary sizes and capacities incl. 0."),
    "level_note": "Trusted: the recording core, the logical clock, the sequential models in harness/src/c18.rs; entry order is judged by real-time order (call A returned before call B was invoked) and per-thread program order.",
    "rule": ("queue run = one multi-threaded run: own output, exactly-once, batch limits, order, no deadlock (all "
             "workers asleep with no completion across three one-second samples). wait-list program = 20-220 random "
             "steps checked against a BTreeMap model (is_head exactly at the lowest linked index, count, iter, "
             "get_waiter, values). LRU program = 20-320 steps against a recency-queue model (overwrite-refresh "
             "reading calibrated from the implementation, both accepted): lookups, pops, accounted size, capacity. "
             "Non-trivial = queue run with a batch of >=2, wait-list program with an out-of-order unlink, LRU "
             "program with >=1 eviction. distinct = hash of the program / run shape."),
    "assumptions": ["whether overwriting refreshes recency is not stated: the implementation's behaviour is calibrated once and either reading is accepted"],
    "jobs": lambda tier: [
        job("sync", "c18", shards=16, timeout=1500, queue_runs=q(tier, 6, 150), waitlist_programs=q(tier, 150, 5000),
            lru_programs=q(tier, 400, 20000), full=1),
    ] + ([san_job("sync-asan", "c18", "asan", queue_runs=30, waitlist_programs=500, lru_programs=2000, full=1),
          san_job("sync-tsan", "c18", "tsan", queue_runs=30, waitlist_programs=300, lru_programs=1000, full=0),
          miri_job("miri", "lru", programs=16, schedules=8)] if tier == "thorough" else []),
    "floors": lambda tier: {"distinct_nontrivial": 2000, "queue.batches_of_2_or_more": 2000,
                            "waitlist.full_list_probes": 8, "lru.evictions": 10000, "waitlist.steps": 50000},
}

# ------------------------------------------------------------------------------------------- C17
REGISTRY["C17"] = {
    "level": "exploration",
    "technique": "runtime monitor over a logical-clock history: every reader observation (iteration, contains, seek/next/prev) checked against the must/may sets of inserts completed before / begun before it; data-race and UB side under Miri many-seeds (and TSan/ASan in the thorough tier)",
    "level_text": ("Exploration of sampled schedules: 1-8 inserters x 1-8 readers on dense, ascending, descending, random "
                   "and shared-predecessor key sets; readers loop until the writers finish. The memory/ordering side "
                   "(lifetime of nodes under a held iterator, release/acquire publication) is judged by Miri's "
                   "interpreter over many schedule seeds on a scaled-down workload."),
    "level_note": "Trusted: the SeqCst logical clock (stamps bracket the real calls), Miri's data-race and borrow checking. Schedules are sampled, not enumerated; evidence counts observations that saw a partial state.",
    "rule": ("skiplist run = one multi-threaded run (key set of 16-1024 keys, one of five assignment patterns); every "
             "observation is judged on its own; at quiescence the list must hold exactly the key set, and an iterator "
             "held after its list is dropped must still yield the list. list run = concurrent prepends vs iterations "
             "(exactly once, newest first per thread). Non-trivial = run in which >=1 observation overlapped the "
             "inserts and saw a non-empty, non-final state. distinct = hash of the run shape."),
    "assumptions": ["keys are distinct (the list asserts on duplicates)"],
    "jobs": lambda tier: [
        job("threads", "c17", shards=16, timeout=1500, runs=q(tier, 150, 5000), list_runs=q(tier, 40, 1000)),
    ] + ([san_job("threads-asan", "c17", "asan", runs=600, list_runs=150),
          san_job("threads-tsan", "c17", "tsan", runs=400, list_runs=100),
          miri_job("miri", "skiplist,list", programs=6, schedules=16)] if tier == "thorough" else []),
    "floors": lambda tier: {"distinct_nontrivial": 500, "skiplist.observations_of_partial_state": 20000,
                            "list.observations_of_partial_state": 300,
                            "skiplist.iterator_outlives_list_probes": 500},
}

# ------------------------------------------------------------------------------ E1: store stepper
E1_RULE = ("history = generated sequence of steps against the real store with flush/compaction loops in single-step "
           "mode: put / del / batch (1-6 keys, sometimes one key twice) or, in tree mode, ingest of harness-built "
           "SSTs with monotone timestamps; flush step; compaction step (whatever next_compaction selects: trivial "
           "move, merge, top-level GC); verifier pass; reopen; open / advance held cursors. Key space <= 52 "
           "adversarial keys (empty key, prefixes, last-byte neighbours, 0xff runs) with one hot key; options "
           "sampled per history (memtable 1..4096 B, 4-16 KiB files, restart interval 1/16, L0 thresholds 1..12, "
           "max compaction bytes 8 KiB/512 MiB, cache 0/64 MiB, manifest rollover ratio 1/2/8, six GC policies). "
           "After EVERY step: point read of every key (C01), 2-4 scans with random bounds and cursor programs (C03), "
           "directory diff (C08); after every maintenance step: level/lookup-order invariant from the tree shape and a "
           "full walk of each live SST (C01), manifest ledger (C04); around every compaction: multi-version dump "
           "before/after (C05); held cursors vs their drained twins (C07). A history ends at its first violation. ")


def _e1_jobs(focus, tier, quick_h=10, quick_steps=80, tho_h=160, tho_steps=120):
    js = [job("stepper", "e1", shards=16, timeout=3000, focus=focus, histories=q(tier, quick_h, tho_h),
              steps=q(tier, quick_steps, tho_steps))]
    if tier == "thorough":
        js.append(job("stepper-release", "e1", flavour="release", shards=16, timeout=3000, focus=focus,
                      histories=tho_h, steps=tho_steps * 2))
    return js


def _e2_job(focus, tier, name="crash-sweep", **kw):
    a = dict(cases=q(tier, 2, 8), rounds=q(tier, 10, 14), points=q(tier, 40, 400), faults=q(tier, 16, 150),
             second=q(tier, 3, 12))
    a.update(kw)
    j = job(name, "e2", shards=16, timeout=3000, focus=focus, **a)
    j["needs_shim"] = True
    return j


E2_RULE = ("crash case = one scripted KeyValueStore history (4-16 keys, puts/deletes/batches of 2-5 distinct keys, "
           "runs of 1-3 flushes, 2-6 compaction steps, verifier passes, clean reopens, trailing unflushed writes; "
           "memtable 1/256/2048 B, 4 KiB files, L0 thresholds 1-2 / 4-12, manifest rollover ratio 1/2/8) executed by "
           "a child process under the LD_PRELOAD shim, which acknowledges every client call to a file outside the "
           "store. The child is killed before its n-th watched call (mkdir/create/write/fsync/fdatasync/link/rename/"
           "unlink/ftruncate under the store root), the image is left as is (model a) or every file is cut back to "
           "its last synced length (model b), and a fresh un-shimmed process opens it, reads every key and a full "
           "scan, re-checks the manifest ledger, reopens again, writes, flushes and compacts. Verdict: reads == "
           "apply(acknowledged prefix) or == apply(prefix + the whole in-flight call); scan agrees; second reopen "
           "and post-recovery maintenance change nothing. Some images are crashed a second time inside recovery. "
           "fault case = the n-th call fails once with EIO or ENOSPC; the child stops at the first error it is told "
           "of; the same oracle judges the directory it leaves. ")


def _e3_job(focus, tier, name="threads", **kw):
    a = dict(runs=q(tier, 6, 150), scale=q(tier, 1, 2))
    a.update(kw)
    return job(name, "e3", shards=16, timeout=3000, focus=focus, **a)


E3_RULE = ("concurrent run = one child process: 2-6 client threads execute pre-generated rounds (1-6 calls per thread "
           "per round, rounds separated by a barrier and a spin gate) of put / delete / batch of 2-4 distinct keys / "
           "point read / scan (full or between two keys) / held cursor (walked with next, prev and seeks between rounds, "
           "drained at a random later round or at the end) over 3-10 keys with unique values, against a KeyValueStore "
           "whose memtable_thread and 1-3 compaction_thread loops run for real (memtable 1 B - 8 KiB so rollovers and "
           "flushes happen every few writes; L0 thresholds 1-4 / +1..4) while a yield hook sleeps 0-6 ms at the named "
           "points between the store's critical sections (one hot site and one slow client per run). Every call is "
           "recorded at the client boundary with invoke and return stamps of one SeqCst counter; a scan's interval is "
           "the range_scan() call. Offline, a Wing-Gong search with memoisation on (per-thread frontier, map state) "
           "decides round by round whether a linearization exists in which batches are atomic multi-key writes and "
           "scans atomic multi-key reads, carrying the set of possible states from round to round; a failing round is "
           "re-searched without held cursors to attribute it. A monitor thread samples the park registry every 250 ms: "
           "ingest parked on `stall`, all compaction threads parked on `compact` and no registry change for 4 s = "
           "deadlock. At quiescence the manifest ledger is re-checked. ")


def _e1(prop, technique, level_text, rule_tail, floors, quick_h=10):
    REGISTRY[prop] = {
        "level": "exploration",
        "technique": technique,
        "level_text": level_text,
        "level_note": ("Trusted: the sequential map model, the single-step hooks (they only add returns at the loop edges "
                       "of memtable_thread/compaction_thread), independent SST walks cached by content-addressed name, "
                       "mani::ManifestIterator for reading the ledger. Tree shapes not reached by the generated "
                       "histories are not covered."),
        "rule": E1_RULE + rule_tail,
        "assumptions": ["ingested files carry timestamps above everything ingested before (tree mode)",
                        "a batch that names a key twice applies its last entry"],
        "jobs": (lambda p, qh: (lambda tier: _e1_jobs(p, tier, quick_h=qh) + (
            [_e2_job(p, tier, name="crash-images", faults=0, second=0)] if p in ("C04", "C08") else []) + (
            [_e3_job(p, tier)] if p in ("C04", "C07") else []) + (
            [san_job("threads-asan", "e3", "asan", focus="C07", runs=60, scale=1),
             san_job("threads-tsan", "e3", "tsan", focus="C07", runs=40, scale=1),
             san_job("stepper-asan", "e1", "asan", focus="C07", histories=40, steps=120),
             miri_job("miri-memtable", "memtable", programs=8, schedules=12)] if p == "C07" and tier == "thorough" else []) + (
            [job("tamper", "c04t", shards=16, timeout=3000, cases=q(tier, 3, 30), budget=q(tier, 250, 1500))] if p == "C04" else []) + (
            [job("collector", "c05gc", shards=16, timeout=3000, max_len=q(tier, 8, 12), random=q(tier, 2000, 300000))] if p == "C05" else [])))(prop, quick_h),
        "floors": floors,
    }


_e1("C01",
    "runtime monitor: every point read after every step of generated store histories vs a sequential map model; structural invariant (levels key-ordered and non-overlapping, lookup order never goes back in time for a key, metadata matches file) evaluated on live state at quiescent points",
    "Exploration: hundreds (quick) to tens of thousands (thorough) of single-stepped histories reaching all 16 levels, with reads and the lookup-order invariant checked in every intermediate tree state.",
    "Non-trivial = history with >=1 merging compaction, GC or reopen; distinct = hash of the step list.",
    lambda tier: {"distinct_nontrivial": 80, "steps.flush": 300, "steps.trivial_move": 300, "steps.merge": 40, "steps.gc": 5,
                  "steps.reopen_with_3plus_levels": 40, "steps.verifier_pass": 40, "ops.ingest": 200, "c01.read_sweeps": 5000},
    quick_h=12)

_e1("C03",
    "runtime monitor: range-scan cursors driven by generated programs of seek_to_first/seek_to_last/seek/next/prev under generated bounds vs a reference cursor over the model map, after every step of generated store histories",
    "Exploration: scans with every combination of unbounded/included/excluded bounds (incl. empty and inverted ranges) and 24-call cursor programs plus full forward/backward walks, in every intermediate tree state of the histories.",
    "Non-trivial = history with a flush (or tree mode) whose scans had >=2 live keys in range and a reversal or seek; distinct = hash of the step list.",
    lambda tier: {"distinct_nontrivial": 60, "c03.scans_nontrivial": 12000, "c03.scans_empty_or_inverted": 2000,
                  "steps.flush": 300, "steps.merge": 30},
    quick_h=8)

_e1("C04",
    "runtime monitor: manifest ledger re-read from disk after every maintenance step (chain I = previous O, I = O + D, D = removed - added, fragment roll-ups, O = sum of listed, file content setsum = name = final-block setsum) plus acceptance by ManifestVerifier/LsmVerifier; tamper-rejection sweep",
    "Exploration of fault-free histories (every transaction of every fragment re-checked) plus enumeration of single tampers on copies of real directories.",
    "Non-trivial = history with >=1 rewriting compaction (merge or GC); distinct = hash of the step list.",
    lambda tier: {"distinct_nontrivial": 40, "c04.transactions_checked": 50000, "c04.files_recomputed": 300,
                  "steps.verifier_pass": 60, "steps.merge": 40, "steps.gc": 5,
                  "ledger.recovered_images_balanced": 1500, "c04.ledgers_checked_at_quiescence": 40,
                  "neutral_rewrites_accepted": 20, "verdict.rejected": 3000, "tampers.digit:added": 200,
                  "tampers.digit:removed": 100, "tampers.digit:discard": 200,
                  "rejected_because.data_loss": 50, "rejected_because.data_construction": 50,
                  "rejected_because.garbage_collection_has_bad_discard": 50},
    quick_h=12)

_e1("C05",
    "runtime monitor: multiset of (key, timestamp, value-or-tombstone) over all live SSTs dumped before and after every compaction step; non-GC compactions must conserve it exactly, GC discards are checked against an independent interpreter of the policy language and against the discard setsum; store-free GarbageCollector monitor over enumerated per-key patterns",
    "Exploration: every compaction the selector chooses in the generated histories (4 KiB target/minimum file size, 1-3 KiB values, a hot key with many versions so versions straddle output files).",
    "Non-trivial = history with a compaction of >=2 inputs; distinct = hash of the step list.",
    lambda tier: {"distinct_nontrivial": 40, "c05.compactions_with_2plus_inputs": 60, "c05.gc_with_nonempty_discard": 5,
                  "c05.compactions_with_2plus_outputs": 10, "collections_that_drop_something": 40000},
    quick_h=12)

_e1("C07",
    "runtime monitor: cursors held across writes, rollovers, flushes, compactions, GCs and verifier passes must reproduce the sequence their twin cursor (opened at the same moment, drained at once) produced; skip-list allocation registry asserts liveness of every node dereferenced",
    "Exploration: 1-3 held cursors per history advanced forward and backward between store events; sst cache disabled so retired files are not masked. Memory side: allocation registry (quick), ASan/TSan in the thorough tier.",
    "Non-trivial = history in which a held cursor was advanced after >=1 store event since it was opened; distinct = hash of the step list.",
    lambda tier: {"distinct_nontrivial": 100, "c07.cursor_advances_after_store_events": 800, "c07.cursors_opened": 500,
                  "steps.flush": 200, "steps.merge": 20},
    quick_h=10)

_e1("C08",
    "runtime monitor: directory listings of sst/, trash/, root, mani/, verify/ before and after every step; every file that left its place is checked against the committed manifest on disk, the live sets of held cursors, the contents of the trashed log and the fragments the verifier has processed; reopen and full read-back after verifier passes",
    "Exploration of histories with frequent verifier passes and reopens; crash points inside verifier passes and trash moves are swept by the C02 engine.",
    "Non-trivial = history in which >=1 file left sst/, the root or trash/; distinct = hash of the step list.",
    lambda tier: {"distinct_nontrivial": 100, "c08.ssts_left_sst_dir": 500, "c08.logs_left_root": 300,
                  "c08.trash_entries_unlinked": 200, "c08.reopens_after_verifier_pass": 30},
    quick_h=10)


# ------------------------------------------------------------------------------------------- C02
REGISTRY["C02"] = {
    "level": "fault_enumeration",
    "technique": "runtime fault injection with a recovery oracle: a scripted store history runs in a child under an LD_PRELOAD system-call shim and is killed before each (quick: a spread of) watched mutating call under two persistence models, or has one call fail with EIO/ENOSPC; a fresh process reopens the image and its reads are compared with the acknowledged prefix (all-or-nothing for the in-flight call)",
    "level_text": ("Fault enumeration over the watched calls of the scripted histories: quick sweeps an even spread plus "
                   "random points, thorough up to 400 points per history (all of them for most), each under models a "
                   "and b, plus single EIO/ENOSPC injections and second crashes inside recovery. Histories and the "
                   "calls they issue are sampled; crash points the scripts never reach are not covered."),
    "level_note": ("Trusted: the shim sees every mutating libc call under the store root (non-zero counts, exit code 77 at "
                   "the chosen call); the acknowledgement file is written only after the client call returned; "
                   "directory-entry durability is outside the two models; flush/compaction loops are single-stepped "
                   "by the hooks so the child is single-threaded and its call sequence repeatable."),
    "rule": E2_RULE + ("Non-trivial = crash image / fault run of a history with flushes and compactions and >50 watched "
                       "calls; distinct = hash of (history, call number, model or errno)."),
    "assumptions": ["an operation the caller was told failed may or may not be present after reopen, but never partially",
                    "directory entries persist at the call (no model of lost renames/links)"],
    "exhaustive": lambda tier, counters: False,
    "jobs": lambda tier: [_e2_job("C02", tier)],
    "floors": lambda tier: {"distinct_nontrivial": 1000, "crash.images_model_a": 800, "crash.images_model_b": 800,
                            "crash.images_with_unsynced_bytes_dropped": 100, "crash.images_with_write_in_flight": 100,
                            "crash.points.flush": 200, "crash.points.verify": 100, "crash.points.write": 100,
                            "crash.second_crashes_inside_recovery": 50, "fault.surfaced_as_error": 100,
                            "recoveries.matched_acknowledged_prefix": 1500},
}


# ------------------------------------------------------------------------------------------- C06
REGISTRY["C06"] = {
    "level": "exploration",
    "technique": "runtime monitor over recorded client histories: invoke/return-stamped puts, deletes, batches, reads, scans and held cursors of 2-6 threads against the real store with real flush and compaction threads and injected delays; offline Wing-Gong linearizability search per barrier-delimited round with batches as atomic multi-key writes and scans as atomic multi-key reads",
    "level_text": ("Exploration of sampled schedules: hundreds (quick) to tens of thousands (thorough) of short concurrent "
                   "runs, each checked completely (the search is exact for the recorded history, budgeted at 3M nodes per "
                   "round and start state; a budget overrun is reported as inconclusive). Schedules the runs do not "
                   "produce are not covered."),
    "level_note": ("Trusted: the SeqCst logical clock brackets every call; the sequential map specification; the yield hooks "
                   "sit between critical sections only (no store lock held). TSan/ASan builds of the same workload run in "
                   "the thorough tier."),
    "rule": E3_RULE + ("Non-trivial = run with >=10 writes, >=5 operations overlapping an operation of another thread and "
                       ">=1 flush; distinct = hash of the recorded stamps."),
    "assumptions": ["the linearization point of a scan lies inside the range_scan() call that created its cursor"],
    "jobs": lambda tier: [_e3_job("C06", tier)] + ([san_job("threads-tsan", "e3", "tsan", focus="C06", runs=40, scale=1),
                                                    san_job("threads-asan", "e3", "asan", focus="C06", runs=40, scale=1),
                                                    miri_job("miri-memtable", "memtable", programs=8, schedules=12)] if tier == "thorough" else []),
    "floors": lambda tier: {"distinct_nontrivial": 50, "lin.operations_overlapping_another_thread": 8000,
                            "lin.rounds_checked": 1000, "ops.batch": 2000, "ops.scan": 1000, "store.flushes": 500,
                            "store.compactions": 1000},
}


# ------------------------------------------------------------------------------------------- C20
REGISTRY["C20"] = {
    "level": "exploration",
    "technique": "runtime monitors: (b) in single-stepped histories, whenever the tree says ingest would stall, compaction steps must relieve it within a bound (a stall with nothing selectable is reported with the tree shape); (a,c) in concurrent runs a monitor thread samples the store's park registry and declares a deadlock only when the ingest is parked on `stall`, every compaction thread is parked on `compact` and the registry stands still",
    "level_text": ("Exploration: tree shapes reached by generated histories under small stall / mandatory thresholds and "
                   "max-compaction-files 6-64 (stepper), and sampled schedules of 2-4 writers, the flush thread and 1-3 "
                   "compaction threads with memtables of 1-64 bytes so that ingest outruns compaction (threads). "
                   "'Eventually' is restated as bounded progress: relieved within 4*files+64 compaction steps (stepper); "
                   "no registry change for 4 s with all store threads parked (threads)."),
    "level_note": ("Trusted: the park registry is updated under the mutex of the condition variable it describes; the 4 s "
                   "stand-still is a wall-clock guard against a woken-but-not-yet-scheduled thread, the verdict itself is "
                   "the logical predicate (who could still notify). Liveness beyond these bounds is out of reach of runtime "
                   "monitoring."),
    "rule": E1_RULE + " For C20 the stepper runs with memtable 1 B, stall threshold 2-4, mandatory threshold 1-2 and "
            "max_compaction_files 6-64; non-trivial = history that reached a state in which ingest would stall. " + E3_RULE +
            "For C20 the runs are write-heavy with memtable 1-64 B and stall = mandatory + 1; non-trivial as for C06.",
    "assumptions": ["writers never wait for memtable space in this store, so the party that can be held back forever is the flush thread's ingest"],
    "jobs": lambda tier: _e1_jobs("C20", tier, quick_h=12) + [_e3_job("C20", tier, runs=q(tier, 12, 300)),
                          job("staging-race", "c20race", shards=16, timeout=3000, histories=q(tier, 24, 400), steps=120)],
    "floors": lambda tier: {"distinct_nontrivial": 60, "c20.states_with_ingest_stalled": 2000, "c20.stalls_relieved": 300,
                            "c20.samples_with_ingest_stalled": 20, "store.flushes": 1000, "store.compactions": 1000,
                            "pass2.second_thread_started_while_first_is_held_after_apply": 2},
}


# ------------------------------------------------------------------------------------------- C09
REGISTRY["C09"] = {
    "level": "fault_enumeration",
    "technique": "differential runtime monitor under fault injection: every access path (Sst::new + forward/backward walk + loads; LogIterator drain; ManifestIterator and Manifest::open; KeyValueStore::open + all point reads + full scan + LsmVerifier on a real store directory) is run on the pristine file and on copies with injected bit flips, byte overwrites, zeroed runs, truncations, appended suffixes and pairs of these; results must be an error or identical; panics are caught, aborts and allocation-cap exits are reported by the driver, peak allocation is compared with the pristine run",
    "level_text": ("Fault enumeration over generated files: every single-bit flip of the index, filter and final blocks of "
                   "small SSTs, of every log frame header and of every manifest separator line; every truncation length of "
                   "files up to 2.5 KB (windows around region edges plus samples above); stratified samples elsewhere; "
                   "sampled pairs of damages; store-level damage sampled over every file of real store directories."),
    "level_note": ("Trusted: the pristine run as the reference; the harness' own parse of the SST final block (regions); the "
                   "counting allocator. A loss that a reader cannot tell from a torn tail (pure truncation, or damage "
                   "confined to the last log frame / last manifest transaction that makes exactly that one disappear) is "
                   "counted, not reported; suffixes that are themselves well-formed records are not generated."),
    "rule": ("sst case = generated table (2-240 keys, 1-40 versions, tombstones, 4 KiB blocks, random restart intervals) "
             "written by SstBuilder; log case = 2-15 batches of 1-4 entries written by LogBuilder; manifest case = 2-11 "
             "edits applied through Manifest; store case = directory produced by a scripted single-stepped store history "
             "(flushes, compactions, reopens, unflushed tail). Per damaged copy: whatever is returned before an error "
             "must be a prefix of the pristine answer and a clean end must be complete; loads that succeed must agree; "
             "Manifest::open / KeyValueStore::open that succeed must give the pristine state. Non-trivial = file with "
             ">=2 entries / every log / every manifest / store with SSTs and a log; distinct = hash of the pristine bytes."),
    "assumptions": ["loss confined to the tail that is indistinguishable from a torn write is not damage the reader can detect",
                    "an appended suffix that is a well-formed record is data, not damage"],
    "exhaustive": lambda tier, counters: False,
    "jobs": lambda tier: [
        job("files", "c09", shards=16, timeout=3000, sst_cases=q(tier, 24, 500), log_cases=q(tier, 24, 500),
            mani_cases=q(tier, 24, 500), store_cases=q(tier, 4, 80), budget=q(tier, 600, 3000),
            store_budget=q(tier, 300, 1500)),
    ] + ([job("files-release", "c09", flavour="release", shards=16, timeout=3000, sst_cases=1500, log_cases=1500,
              mani_cases=1500, store_cases=100, budget=3000, store_budget=1500),
          san_job("files-asan", "c09", "asan", sst_cases=60, log_cases=60, mani_cases=60, store_cases=6, budget=600,
                  store_budget=300)] if tier == "thorough" else []),
    "floors": lambda tier: {"distinct_nontrivial": 500, "sst.damages.final-block": 50000, "sst.damages.index-block": 50000,
                            "sst.damages.filter-block": 50000, "sst.damages.data-blocks": 50000,
                            "log.damages.kind.flip": 50000, "mani.damages.kind.flip": 50000,
                            "sst.damages.kind.truncate": 20000, "log.damages.kind.truncate": 50000,
                            "store.damages.sst": 3000, "store.damages.log": 300, "store.damages.manifest": 300,
                            "store.verifier_runs": 1000},
}


# ------------------------------------------------------------------ ASan re-runs of the pure-input checks
def _with_asan(prop, name, cmd, **args):
    inner = REGISTRY[prop]["jobs"]
    REGISTRY[prop]["jobs"] = (lambda inner: (lambda tier: inner(tier) + (
        [san_job(name, cmd, "asan", **args)] if tier == "thorough" else [])))(inner)


_with_asan("C10", "tables-asan", "c10", cases=3000, prog=40)
_with_asan("C11", "combinators-asan", "c11", cases=6000, prog=40)
_with_asan("C15", "codec-asan", "c15", cases=20000)
_with_asan("C16", "pairs-asan", "c16", cases=100000)
