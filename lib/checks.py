"""Registry of checks: per property the jobs per tier, coverage floors, evidence texts."""


class Inconclusive(Exception):
    pass


def q(tier, quick, thorough):
    return thorough if tier == "thorough" else quick


REGISTRY = {}
NOT_CLAIMED = {}
NOTES = ("All checks are runtime monitors over executions of the real code: ./check <ID> builds "
         "/verif/harness (path-dependent on /repo's working tree, hooks on), runs sharded workloads, "
         "merges the monitors' reports, applies known_findings.json and writes evidence/<ID>.json. "
         "Exit 2 = inconclusive (never a verdict).")
ENGINES = [
    {"name": "vh", "path": "/verif/harness", "serves_properties": [],
     "kind_free_text": "Rust harness: workload generators, reference models and online/offline monitors"},
    {"name": "check", "path": "/verif/check", "serves_properties": [],
     "kind_free_text": "Python driver: builds flavours (plain/release/asan/tsan/miri), shards, merges, known-findings, evidence"},
]


def job(name, cmd, flavour="plain", shards=16, timeout=900, **args):
    return {"name": name, "cmd": cmd, "flavour": flavour, "shards": shards, "timeout": timeout,
            "args": args}


# ------------------------------------------------------------------------------------------- C10
REGISTRY["C10"] = {
    "level": "exploration",
    "technique": "differential runtime monitor: real Block/Sst cursors vs Vec reference after every call on generated tables and cursor programs",
    "level_text": ("Exploration: tens of thousands (quick) to millions (thorough) of generated tables and cursor "
                   "programs, each call compared with an independent reference; says nothing about inputs not "
                   "generated."),
    "level_note": "Trusted: the Vec reference cursor, sst::Setsum framing (tied to the definition by C14), the generators' reach.",
    "rule": ("Each case = one generated strictly-ordered entry sequence (adversarial key pool: empty "
             "key, prefixes, last-byte neighbours, 0xff runs, 16 KiB keys / 32 KiB values; 1-40 "
             "versions per key; tombstone runs), interleaved with inputs the builder must reject, "
             "fed to the real BlockBuilder or SstBuilder under random restart/block options, then "
             "1-3 random cursor programs, full forward/backward walks, timestamped loads and "
             "metadata compared with a Vec-backed reference after every call. Non-trivial = table "
             "has >=2 restarts or >=2 data blocks AND a program contains a reversal or a seek; "
             "distinct = structural hash of (kind, options, entries, programs)."),
    "assumptions": ["sst::Setsum entry framing is tied to the published definition by C14",
                    "oracle is a sorted Vec with two sentinels (harness/src/gen.rs RefCursor)"],
    "jobs": lambda tier: [
        job("tables", "c10", shards=16, cases=q(tier, 1500, 40000), prog=40),
    ] + ([job("tables-release", "c10", flavour="release", shards=16, cases=40000, prog=60)]
         if tier == "thorough" else []),
    "floors": lambda tier: {"distinct_nontrivial": 1000, "tables_multi_block": 100,
                            "rejected_attempts.out_of_order": 100, "metadata_checks": 100},
}
