#!/usr/bin/env python3
"""Run each seeded change against the check of its property (quick tier unless told otherwise):
apply /verif/seeded/<id>/patch.diff to /repo, run ./check, undo, record the outcome in meta.json.
usage: lib/matrix.py [--tier quick] [id ...]"""
import json, os, re, subprocess, sys, time

def sh(cmd):
    return subprocess.run(cmd, shell=True, capture_output=True, text=True)

args = sys.argv[1:]
tier = "quick"
if args[:1] == ["--tier"]:
    tier = args[1]; args = args[2:]
ids = args or sorted(os.listdir("/verif/seeded"))
assert sh("git -C /repo status --porcelain").stdout.strip() == "", "repo not clean"
for name in ids:
    d = f"/verif/seeded/{name}"
    meta = json.load(open(f"{d}/meta.json"))
    prop = meta["property"]
    r = sh(f"git -C /repo apply {d}/patch.diff")
    if r.returncode != 0:
        print(name, "patch does not apply", r.stderr[:200]); continue
    t0 = time.time()
    out = sh(f"cd /verif && ./check {prop} --tier {tier}")
    wall = time.time() - t0
    sh("git -C /repo checkout -- .")
    assert sh("git -C /repo status --porcelain").stdout.strip() == ""
    classes = re.findall(r"violation class (\S+) / (.+?): (\d+) recorded", out.stderr)
    viol = len(re.findall(r"^VIOLATION ", out.stdout, re.M))
    incon = re.findall(r"^INCONCLUSIVE: (.*)$", out.stdout, re.M)
    meta.setdefault("checks", {})[f"{prop}:{tier}"] = {
        "cmd": f"cd /verif && ./check {prop} --tier {tier}",
        "exit": out.returncode,
        "caught": out.returncode == 1 and viol > 0,
        "violation_classes": [f"{k} / {s} x{n}" for k, s, n in classes][:8],
        "inconclusive": incon[:3],
        "wall_s": round(wall, 1),
    }
    json.dump(meta, open(f"{d}/meta.json", "w"), indent=1)
    print(name, "exit", out.returncode, "caught" if out.returncode == 1 and viol else "MISSED", [s for _, s, _ in classes][:3], f"{wall:.0f}s", flush=True)
