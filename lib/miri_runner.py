"""Runner for the Miri rig (/verif/miri): scaled-down concurrent and unsafe-heavy workloads of
skipfree, listfree, sync42 and scrunch interpreted by Miri (undefined behaviour, data races,
borrow-model violations), one (workload, program seed, scheduler seed) triple per interpreter run.
A run that Miri rejects is a violation whose signature is Miri's first error line with addresses
and line numbers stripped; an `unsupported operation` is inconclusive, never a verdict."""
import hashlib
import json
import os
import re
import shutil
import subprocess
import time


def _sig(text):
    m = re.search(r"^error: (.*)$", text, re.M)
    first = m.group(1) if m else "unknown"
    first = re.sub(r"0x[0-9a-f]+|alloc\d+|\[[^\]]*\]|\d+", "#", first)[:120]
    frames = re.findall(r"(/repo/[^\s:]+):\d+", text)
    frame = frames[0].replace("/repo/", "") if frames else "unknown"
    return f"miri:{first.strip()}:{frame}"


def runner(prop, job, shard, seed, tier, outdir, env):
    from checks import Inconclusive
    a = job.get("args", {})
    workloads = a.get("workloads", "skiplist").split(",")
    progs = int(a.get("programs", 2))
    scheds = int(a.get("schedules", 4))
    rig = os.path.join(env["VH_VERIF"], "miri")
    lock_src = "/repo/Cargo.lock"
    if os.path.exists(lock_src) and shard == 0:
        shutil.copy(lock_src, os.path.join(rig, "Cargo.lock"))
    e = dict(env)
    e["CARGO_TARGET_DIR"] = os.path.join(env["VH_VERIF"], "target", "miri")
    e["RUSTFLAGS"] = "--cfg rescrv_blue_verif"  # the memtable workload needs hook H7; same build for all
    triples = [(w, p, s) for w in workloads for p in range(progs) for s in range(scheds)]
    mine = [t for i, t in enumerate(triples) if i % job["shards"] == shard]
    rep = {"evaluations": 0, "counters": {}, "samples": [], "notes": {}, "inconclusive": [],
           "violations_total": 0, "violations": [], "_hashes": set(), "_argv": ["miri"]}
    budget = job.get("timeout", 3000) - 120
    t0 = time.time()
    for (w, p, s) in mine:
        if time.time() - t0 > budget:
            rep["counters"]["miri.triples_skipped_for_time"] = rep["counters"].get("miri.triples_skipped_for_time", 0) + 1
            continue
        prog_seed = seed * 1000 + p + 1
        sched_seed = (seed * 7919 + s * 104729 + p) % (1 << 31)
        e["MIRIFLAGS"] = f"-Zmiri-disable-isolation -Zmiri-seed={sched_seed} -Zmiri-preemption-rate=0.05"
        argv = ["cargo", "+nightly", "miri", "run", "--offline", "--quiet", "--manifest-path",
                os.path.join(rig, "Cargo.toml"), "--", w, str(prog_seed)]
        try:
            pr = subprocess.run(argv, env=e, cwd=rig, stdout=subprocess.PIPE, stderr=subprocess.STDOUT, text=True,
                                timeout=int(a.get("per_run_timeout", 900)))
        except subprocess.TimeoutExpired:
            rep["inconclusive"].append(f"miri {w} program {prog_seed} schedule {sched_seed}: interpreter watchdog")
            continue
        out = pr.stdout
        rep["evaluations"] += 1
        rep["counters"][f"miri.runs.{w}"] = rep["counters"].get(f"miri.runs.{w}", 0) + 1
        h = int.from_bytes(hashlib.sha256(f"{w}/{prog_seed}/{sched_seed}".encode()).digest()[:8], "little")
        rep["_hashes"].add(h)
        if pr.returncode == 0 and f"ok {w}" in out:
            if len(rep["samples"]) < 2:
                rep["samples"].append({"workload": w, "program_seed": prog_seed, "miri_seed": sched_seed,
                                       "flags": e["MIRIFLAGS"]})
            continue
        replay = f"cd {rig} && MIRIFLAGS='{e['MIRIFLAGS']}' CARGO_TARGET_DIR={e['CARGO_TARGET_DIR']} " + " ".join(argv)
        if "unsupported operation" in out or "could not compile" in out or "error: no such command" in out:
            rep["inconclusive"].append(f"miri {w}: {out[-400:]}")
            continue
        rep["violations_total"] += 1
        if len(rep["violations"]) < 10:
            sig = _sig(out) if "error:" in out else "miri:workload-assertion:" + (re.findall(r"panicked at ([^:\n]+)", out) or ["?"])[0]
            rep["violations"].append({"kind": "miri", "signature": sig,
                                      "detail": {"workload": w, "program_seed": prog_seed, "miri_seed": sched_seed,
                                                 "message": out[-2500:], "replay": replay}})
    return rep
