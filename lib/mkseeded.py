#!/usr/bin/env python3
"""One-off assembler, kept for the record: it built /verif/seeded/<ID>-<mut>/ from the sub-agents' scratch
worktrees under /tmp/wt and the confirmation logs; those worktrees have since been removed, so it
cannot be re-run.  To re-base the kept patches after a change to /repo use lib/rebase_seeded.py.
Original description: assemble /verif/seeded/<ID>-<mut>/ from the sub-agents' outputs and my confirmation logs.
Re-bases every patch on /repo's current HEAD (apply with 3-way fallback, take `git diff`)."""
import json, os, re, shutil, subprocess, sys, glob

SRC = []
for base in ("/tmp/wt/keep",):
    for idd in sorted(os.listdir(base)):
        for m in sorted(os.listdir(os.path.join(base, idd))):
            SRC.append((idd, m, os.path.join(base, idd, m)))
for idd in sorted(os.listdir("/tmp/wt")):
    out = os.path.join("/tmp/wt", idd, "_out")
    if re.fullmatch(r"C\d\d", idd) and os.path.isdir(out):
        for m in sorted(os.listdir(out)):
            SRC.append((idd, m, os.path.join(out, m)))

def sh(cmd, **kw):
    return subprocess.run(cmd, shell=True, capture_output=True, text=True, **kw)

assert sh("git -C /repo status --porcelain").stdout.strip() == "", "repo not clean"
head = sh("git -C /repo rev-parse --short HEAD").stdout.strip()
for idd, m, d in SRC:
    name = f"{idd}-{m}"
    dst = f"/verif/seeded/{name}"
    patch = os.path.join(d, "patch.diff")
    if not os.path.isfile(patch):
        print(name, "no patch"); continue
    log = f"/tmp/wt/confirm-logs/{name}.log"
    conf = None
    if os.path.isfile(log):
        try:
            conf = json.loads(open(log).read().strip().split("\n")[-1])
        except Exception:
            conf = None
    if not conf or conf.get("demo_clean_exit") != 0 or conf.get("demo_mut_exit") in (0, None) or conf.get("tests_mut_exit") != 0:
        print(name, "NOT CONFIRMED", conf); continue
    ported = f"/tmp/wt/ported/{name}.diff"
    if os.path.isfile(ported):
        patch = ported
    r = sh(f"git -C /repo apply {patch}")
    if r.returncode != 0:
        r = sh(f"git -C /repo apply --3way {patch}")
    if r.returncode != 0:
        print(name, "DOES NOT APPLY on", head, r.stderr[:200]); sh("git -C /repo checkout -- . && git -C /repo reset -q"); continue
    sh("git -C /repo reset -q")
    diff = sh("git -C /repo diff").stdout
    conflict = "<<<<<<<" in diff
    sh("git -C /repo checkout -- .")
    if conflict or not diff.strip():
        print(name, "CONFLICT on", head); continue
    os.makedirs(dst, exist_ok=True)
    open(os.path.join(dst, "patch.diff"), "w").write(diff)
    demos = glob.glob(os.path.join(d, "demo_*.rs"))
    for f in demos:
        shutil.copy(f, dst)
    for f in ("notes.md", "demo.md"):
        if os.path.isfile(os.path.join(d, f)):
            shutil.copy(os.path.join(d, f), dst)
    notes = open(os.path.join(d, "notes.md")).read() if os.path.isfile(os.path.join(d, "notes.md")) else ""
    title = notes.strip().split("\n")[0].lstrip("# ").strip() if notes else ""
    needs = ""
    mm = re.search(r"(?is)(needs?(?: to manifest)?|what it needs)[^\n]*?:\s*(.+?)(\n\s*\n|$)", notes)
    if mm:
        needs = " ".join(mm.group(2).split())[:900]
    meta_path = os.path.join(dst, "meta.json")
    old = json.load(open(meta_path)) if os.path.isfile(meta_path) else {}
    meta = {
        "property": idd,
        "id": name,
        "title": title,
        "needs_to_manifest": needs,
        "files_touched": sorted(set(re.findall(r"^\+\+\+ b/(\S+)", diff, re.M))),
        "patch_rebased_on_repo_head": head,
        "confirmed_in_scratch_worktree": {
            "compiles_without_new_warnings": conf.get("compile_warnings") == 0,
            "existing_tests": {"cmd": conf.get("tests_cmd"), "exit": conf.get("tests_mut_exit"), "passed_failed": conf.get("tests_passed_failed")},
            "demonstration": {"file": [os.path.basename(f) for f in demos], "cmd": conf.get("demo_cmd"),
                              "exit_on_unchanged_tree": conf.get("demo_clean_exit"), "exit_with_change": conf.get("demo_mut_exit"),
                              "placed_as": "the demo file is copied to <crate>/tests/ of the crate named in cmd"},
        },
        "apply": f"git -C /repo apply /verif/seeded/{name}/patch.diff   # undo: git -C /repo checkout -- .",
        "checks": old.get("checks", {}),
    }
    json.dump(meta, open(meta_path, "w"), indent=1)
    print(name, "ok", meta["files_touched"])
