#!/bin/bash
# usage: lib/vhs.sh <check> [k=v ...] — run one shard of a harness check and summarise its report
O=/verif/out/vhs-$$.json
mkdir -p /verif/out
/verif/target/${VH_FLAVOUR:-plain}/debug/vh "$@" out=$O > /verif/out/vhs-$$.stdout 2>/verif/out/vhs-$$.stderr
echo "exit=$?"
python3 - $O <<'PY'
import json,sys,collections
try:
    d=json.load(open(sys.argv[1]))
except Exception as e:
    print("no report:", e); sys.exit(0)
print(d['evaluations'], d['nontrivial_local'], 'wall', round(d['wall_s'],2))
print({k:v for k,v in d['counters'].items() if not k.startswith('violation.')})
c=collections.Counter(v['signature'] for v in d['violations'])
print('violations', dict(c), 'total', d['violations_total'], 'inconclusive', d['inconclusive'][:3])
for v in d['violations'][:int(__import__('os').environ.get('VHS_SHOW','8'))]:
    det=v['detail']
    print(' *', v['signature'], '|', str(det.get('message'))[:500]); print('     ', det.get('replay'))
PY
tail -5 /verif/out/vhs-$$.stderr
rm -f $O $O.hashes /verif/out/vhs-$$.stdout /verif/out/vhs-$$.stderr
