#!/bin/bash
# usage: lib/confirm_queue.sh <queue file>  (lines: <ID>-<mut>|<crate>|<test crates>)
while IFS='|' read -r name crate crates; do
  [ -z "$name" ] && continue
  id=${name%%-*}; mut=${name#*-}
  dir=/tmp/wt/$id/_out/$mut
  demo=$(ls $dir/demo_*.rs | head -1)
  base=$(basename $demo .rs)
  /verif/lib/confirm_mut.sh $name $dir/patch.diff $demo $crate/tests/$base.rs "-p $crate --test $base" "$crates" > /tmp/wt/confirm-logs/$name.log 2>&1
done < "$1"
echo finished > /tmp/wt/confirm-logs/$(basename $1).done
