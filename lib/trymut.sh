#!/bin/bash
# usage: lib/trymut.sh <patch.diff> <ID> [tier] — apply a seeded change to /repo, run the check, undo it.
set -u
PATCH=$(readlink -f "$1"); ID=$2; TIER=${3:-quick}
cd /repo || exit 3
if [ -n "$(git status --porcelain)" ]; then echo "repo not clean"; exit 3; fi
git apply --3way "$PATCH" 2>/dev/null || git apply "$PATCH" || { echo "patch does not apply"; git checkout -- .; exit 3; }
git reset -q 2>/dev/null
cd /verif
./check "$ID" --tier "$TIER" > /tmp/trymut.$$.out 2>/tmp/trymut.$$.err
RC=$?
grep -E "^(VIOLATION|KNOWN-FINDING|INCONCLUSIVE)" /tmp/trymut.$$.out | head -5
grep -E "violation class" /tmp/trymut.$$.err | head -8
echo "exit=$RC ($ID $TIER $(basename $(dirname $PATCH)))"
rm -f /tmp/trymut.$$.out /tmp/trymut.$$.err
git -C /repo checkout -- . ; git -C /repo status --porcelain
exit $RC
