"""Independent reference for setsum (C14): hashlib.sha3_256 + integer arithmetic, written from the
published definition: eight columns; column i of an item is the i-th little-endian 32-bit word of
SHA3-256(item) reduced modulo prime i; a multiset's setsum is the column-wise sum modulo the primes;
removal subtracts.  The digest is the eight columns as little-endian u32s."""
import hashlib
import json
import os
import struct
import subprocess

PRIMES = [4294967291, 4294967279, 4294967231, 4294967197, 4294967189, 4294967161, 4294967143,
          4294967111]


def item_cols(item: bytes):
    d = hashlib.sha3_256(item).digest()
    words = struct.unpack("<8I", d)
    return [w % p for w, p in zip(words, PRIMES)], any(w >= p for w, p in zip(words, PRIMES))


def digest_of(cols):
    return struct.pack("<8I", *cols).hex()


def multiset(inserted, removed):
    cols = [0] * 8
    boundary = False
    for it in inserted:
        c, b = item_cols(it)
        boundary |= b
        cols = [(x + y) % p for x, y, p in zip(cols, c, PRIMES)]
    for it in removed:
        c, b = item_cols(it)
        boundary |= b
        cols = [(x - y) % p for x, y, p in zip(cols, c, PRIMES)]
    return cols, boundary


def kv_item(key: bytes, ts: int, value):
    if value is None:
        return bytes([9]) + key + struct.pack("<Q", ts)
    return bytes([8]) + key + struct.pack("<Q", ts) + value


def verify_case(c):
    """returns (ok, expected_hexdigest, touched_boundary)"""
    if c["t"] == "multiset":
        cols, b = multiset([bytes.fromhex(x) for x in c["inserted"]],
                           [bytes.fromhex(x) for x in c["removed"]])
    elif c["t"] == "kv":
        items = [kv_item(bytes.fromhex(e["key"]), int(e["ts"]),
                         None if e["value"] is None else bytes.fromhex(e["value"]))
                 for e in c["entries"]]
        cols, b = multiset(items, [])
    else:
        cols = [0] * 8
        b = False
        for part, plus in zip(c["parts"], c["signs"]):
            pc, pb = multiset([bytes.fromhex(x) for x in part], [])
            b |= pb
            if plus:
                cols = [(x + y) % p for x, y, p in zip(cols, pc, PRIMES)]
            else:
                cols = [(x - y) % p for x, y, p in zip(cols, pc, PRIMES)]
    want = digest_of(cols)
    return want == c["digest"], want, b


def runner(prop, job, shard, seed, tier, outdir, env):
    from checks import Inconclusive
    out = os.path.join(outdir, f"{job['name']}-{shard}.json")
    cases = os.path.join(outdir, f"{job['name']}-{shard}.cases")
    corpus = os.path.join(env["VH_VERIF"], "data", "c14_boundary_items.txt")
    argv = [env["VH_BIN"], "c14ref", f"seed={seed}", f"shard={shard}", f"out={out}",
            f"cases_out={cases}", f"corpus={corpus}"]
    for k, v in job.get("args", {}).items():
        argv.append(f"{k}={v}")
    p = subprocess.run(argv, env=env, stdout=subprocess.PIPE, stderr=subprocess.STDOUT, text=True,
                       timeout=job.get("timeout", 600))
    if not os.path.exists(out):
        raise Inconclusive(f"c14ref shard {shard}: no report (exit {p.returncode}): {p.stdout[-500:]}")
    rep = json.load(open(out))
    hp = out + ".hashes"
    b = open(hp, "rb").read() if os.path.exists(hp) else b""
    rep["_hashes"] = set(struct.unpack(f"<{len(b)//8}Q", b))
    if os.path.exists(hp):
        os.remove(hp)
    rep["_argv"] = argv
    # the corpus validates itself: every committed item must have a word >= its prime
    if shard == 0 and os.path.exists(corpus):
        for l in open(corpus):
            l = l.strip()
            if l and not item_cols(bytes.fromhex(l))[1]:
                raise Inconclusive(f"corpus item {l} has no boundary word under hashlib")
    n = 0
    nb = 0
    for line in open(cases):
        c = json.loads(line)
        ok, want, touched = verify_case(c)
        n += 1
        nb += 1 if touched else 0
        if not ok:
            rep["violations_total"] = rep.get("violations_total", 0) + 1
            if len(rep["violations"]) < 10:
                sig = "digest-differs-from-definition" + (":boundary-word" if touched else "")
                if c["t"] == "kv":
                    sig = "kv-" + sig
                rep["violations"].append({"kind": "c14", "signature": sig,
                                          "detail": {"case": c, "expected": want,
                                                     "message": f"real {c['digest']} != reference {want}",
                                                     "replay": " ".join(argv)}})
    os.remove(cases)
    rep["counters"]["reference.cases_recomputed"] = n
    rep["counters"]["reference.cases_touching_boundary_word"] = nb
    return rep
